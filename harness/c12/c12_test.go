package c12

import (
	"bytes"
	"encoding/json"
	"fmt"
	"os"
	"os/exec"
	"path/filepath"
	"sort"
	"strings"
	"testing"

	"honnef.co/go/tools/lintcmd"
	"pgregory.net/rapid"
	"verif/harness/internal/ev"
	"verif/harness/internal/rn"
)

func TestMain(m *testing.M) { ev.Main(m) }

const rule = "crafted case = 1-5 runs in the gob format of `staticcheck -f binary` (mirror types), over <=4 file names; each run has a build name, a checked-file set and a subset of a universe of <=7 problems (file, line, column, end, check, message; merge strategy a function of the check, ignore state and related information a function of the problem); whole runs are duplicated, runs report on files other runs did not check (and on files they did not check themselves), problems tie on position and message while differing in check or end; the stream goes to the real `staticcheck -merge` (-f text and -f json; stdin or file arguments) and is compared with an independent reference model (any: some run has it; all: every run that checked the file has it; build names = sorted set of the reporting runs' names); all orders of the runs (<=4 runs; 12 sampled orders for 5), every single-run duplication and the duplication of all runs must give byte-identical output and the same exit status (the reversed order through the binary, the others by executing the same lintcmd.Command in the test process, which is cross-checked against the binary on every case). matrix case = generated module with _linux/_windows and foo/!foo files whose features have a known outcome per configuration; `staticcheck -matrix` with 2-3 configurations vs that outcome, vs the model applied to the decoded per-configuration `-matrix -f binary` runs, and vs `-merge` of those outputs in every order. non-trivial = >=2 runs with an 'all' problem missing from exactly one run that checked its file and an 'any' problem present in exactly one run (matrix: an 'all' problem vetoed by one configuration and an 'any' problem under a proper subset of the configurations); distinct by the hash of the sorted run set"

// sigTie is the signature of the known defect class: two different problems
// at the same position with the same message (differing in check or end).
const sigTie = "same-position-and-message-splits-build-names"

var (
	fileNames = []string{"a.go", "b.go", "p/c.go", "p/d_linux.go"}
	// merge strategy per check, as in the tree: U1000, SA4006, SA4003, S1002 are
	// MergeIfAll; XA1/XL1 stand for third-party checks (AddAnalyzers).
	anyCats  = []string{"SA4000", "S1005", "SA1019", "compile", "XA1"}
	allCats  = []string{"U1000", "SA4006", "SA4003", "S1002", "XL1"}
	messages = []string{"m0", "m1", "value is never used"}
)

func isAllCat(c string) bool {
	for _, a := range allCats {
		if a == c {
			return true
		}
	}
	return false
}

type Case struct {
	Universe    []Problem `json:"universe"`
	Runs        []Run     `json:"runs"`
	Input       string    `json:"input"` // stdin | onefile | files | split
	ShowIgnored bool      `json:"show_ignored,omitempty"`
	Perms       [][]int   `json:"perms,omitempty"` // sampled orders, used when there are more than 4 runs
}

func tiesAllowed() bool {
	if v := os.Getenv("C12_TIES"); v != "" {
		return v != "0"
	}
	return !ev.IsKnown(sigTie)
}

func genCase(t *rapid.T) *Case {
	c := &Case{}
	ties := tiesAllowed()
	nf := rapid.IntRange(1, 4).Draw(t, "nfiles")
	files := fileNames[:nf]
	np := rapid.IntRange(1, 7).Draw(t, "nproblems")
	seen := map[string]bool{}
	tieSeen := map[string]bool{}
	for i := 0; i < np; i++ {
		var p Problem
		derive := i > 0 && len(c.Universe) > 0 && rapid.IntRange(0, 9).Draw(t, "derive") < 3
		if derive && !ties {
			ev.Count("excluded_tie_class_known_finding", 1)
			derive = false
		}
		if derive {
			// same position and message as an earlier problem, other check or other end
			p = c.Universe[rapid.IntRange(0, len(c.Universe)-1).Draw(t, "from")]
			if rapid.IntRange(0, 2).Draw(t, "derivekind") < 2 {
				cats := append(append([]string(nil), anyCats...), allCats...)
				p.Cat = cats[rapid.IntRange(0, len(cats)-1).Draw(t, "cat")]
				p.All = isAllCat(p.Cat)
			} else {
				p.EndLine, p.EndCol = p.Line, p.Col+1+rapid.IntRange(0, 2).Draw(t, "endoff")
			}
		} else {
			p.File = files[rapid.IntRange(0, nf-1).Draw(t, "file")]
			p.Line = rapid.IntRange(1, 3).Draw(t, "line")
			p.Col = rapid.IntRange(1, 2).Draw(t, "col")
			switch rapid.IntRange(0, 2).Draw(t, "end") {
			case 1:
				p.EndLine, p.EndCol = p.Line, p.Col+1
			case 2:
				p.EndLine, p.EndCol = p.Line+1, 1
			}
			// the first two fresh problems give the universe one check of each strategy
			if len(c.Universe) == 0 || (len(c.Universe) != 1 && rapid.Bool().Draw(t, "all")) {
				p.Cat = allCats[rapid.IntRange(0, len(allCats)-1).Draw(t, "cat")]
				p.All = true
			} else {
				p.Cat = anyCats[rapid.IntRange(0, len(anyCats)-1).Draw(t, "cat")]
			}
			p.Msg = messages[rapid.IntRange(0, len(messages)-1).Draw(t, "msg")]
			p.Ignored = rapid.IntRange(0, 7).Draw(t, "ignored") == 0
			if rapid.IntRange(0, 5).Draw(t, "related") == 0 {
				p.Related = "see also"
			}
		}
		if !ties && tieSeen[p.tieKey()] {
			// excluded by construction: give the problem a message of its own
			p.Msg = fmt.Sprintf("m%d", 10+i)
			ev.Count("excluded_tie_class_known_finding", 1)
		}
		if seen[p.desc()] {
			continue
		}
		seen[p.desc()] = true
		tieSeen[p.tieKey()] = true
		c.Universe = append(c.Universe, p)
	}

	pool := []string{"x", "y", "z", "w_1"}
	switch rapid.IntRange(0, 11).Draw(t, "names") {
	case 0:
		pool = []string{""} // plain `-f binary` runs, as in the GOOS=... example of the documentation
	case 1:
		pool = []string{"", "x", "y"}
	}
	nr := []int{1, 2, 2, 3, 3, 3, 4, 4, 4, 5, 5}[rapid.IntRange(0, 10).Draw(t, "nruns")]
	dupOf := make([]int, nr)
	for i := 0; i < nr; i++ {
		dupOf[i] = -1
		if i > 0 && rapid.IntRange(0, 5).Draw(t, "duprun") == 0 {
			dupOf[i] = rapid.IntRange(0, i-1).Draw(t, "dupof")
			c.Runs = append(c.Runs, Run{})
			continue
		}
		r := Run{Build: pool[rapid.IntRange(0, len(pool)-1).Draw(t, "build")], Checked: []string{}, Probs: []int{}}
		checked := map[string]bool{}
		for _, f := range files {
			if rapid.IntRange(0, 3).Draw(t, "checked") != 0 {
				r.Checked = append(r.Checked, f)
				checked[f] = true
			}
		}
		for j, p := range c.Universe {
			in := rapid.IntRange(0, 9).Draw(t, "has")
			// a run mostly reports on files it checked
			if (checked[p.File] && in < 6) || (!checked[p.File] && in == 0) {
				r.Probs = append(r.Probs, j)
				if rapid.IntRange(0, 9).Draw(t, "twice") == 0 {
					r.Twice = append(r.Twice, j)
				}
			}
		}
		c.Runs = append(c.Runs, r)
	}
	// the interesting shape, planted: an "all" problem that exactly one run which
	// checked the file lacks, and an "any" problem only one run has
	var allIdx, anyIdx []int
	for j, p := range c.Universe {
		if p.All {
			allIdx = append(allIdx, j)
		} else {
			anyIdx = append(anyIdx, j)
		}
	}
	var base []int
	for i := range c.Runs {
		if dupOf[i] < 0 {
			base = append(base, i)
		}
	}
	if len(base) >= 2 && rapid.IntRange(0, 4).Draw(t, "plant") != 0 {
		has := func(xs []int, x int) bool {
			for _, y := range xs {
				if y == x {
					return true
				}
			}
			return false
		}
		drop := func(xs []int, x int) []int {
			out := []int{}
			for _, y := range xs {
				if y != x {
					out = append(out, y)
				}
			}
			return out
		}
		if len(allIdx) > 0 {
			a := allIdx[rapid.IntRange(0, len(allIdx)-1).Draw(t, "plantall")]
			miss := base[rapid.IntRange(0, len(base)-1).Draw(t, "plantmiss")]
			for _, i := range base {
				r := &c.Runs[i]
				checks := false
				for _, f := range r.Checked {
					checks = checks || f == c.Universe[a].File
				}
				if i == miss {
					if !checks {
						r.Checked = append(r.Checked, c.Universe[a].File)
					}
					r.Probs, r.Twice = drop(r.Probs, a), drop(r.Twice, a)
				} else if checks && !has(r.Probs, a) {
					r.Probs = append(r.Probs, a)
				}
			}
			// somebody has to report it
			other := base[0]
			if other == miss {
				other = base[1]
			}
			if !has(c.Runs[other].Probs, a) {
				c.Runs[other].Probs = append(c.Runs[other].Probs, a)
			}
		}
		if len(anyIdx) > 0 {
			a := anyIdx[rapid.IntRange(0, len(anyIdx)-1).Draw(t, "plantany")]
			only := base[rapid.IntRange(0, len(base)-1).Draw(t, "plantonly")]
			for _, i := range base {
				r := &c.Runs[i]
				if i == only {
					if !has(r.Probs, a) {
						r.Probs = append(r.Probs, a)
					}
				} else {
					r.Probs, r.Twice = drop(r.Probs, a), drop(r.Twice, a)
				}
			}
		}
	}
	for i := range c.Runs {
		if dupOf[i] >= 0 {
			src := c.Runs[dupOf[i]]
			c.Runs[i] = Run{Build: src.Build, Checked: append([]string(nil), src.Checked...), Probs: append([]int(nil), src.Probs...), Twice: append([]int(nil), src.Twice...)}
		}
	}
	c.Input = []string{"stdin", "stdin", "onefile", "files", "split"}[rapid.IntRange(0, 4).Draw(t, "input")]
	c.ShowIgnored = rapid.IntRange(0, 3).Draw(t, "showignored") == 0
	if nr > 4 {
		idx := make([]int, nr)
		for i := range idx {
			idx[i] = i
		}
		for k := 0; k < 12; k++ {
			c.Perms = append(c.Perms, rapid.Permutation(idx).Draw(t, "perm"))
		}
	}
	return c
}

func (c *Case) validate() error {
	seen := map[string]bool{}
	for _, p := range c.Universe {
		if seen[p.desc()] {
			return fmt.Errorf("universe lists %s twice", p.desc())
		}
		seen[p.desc()] = true
		if p.Line < 1 || p.Col < 1 {
			return fmt.Errorf("invalid position in %s", p.desc())
		}
	}
	strat := map[string]bool{}
	for _, p := range c.Universe {
		if a, ok := strat[p.Cat]; ok && a != p.All {
			return fmt.Errorf("check %s has two merge strategies", p.Cat)
		}
		strat[p.Cat] = p.All
	}
	if len(c.Runs) == 0 {
		return fmt.Errorf("no runs")
	}
	for _, r := range c.Runs {
		for _, i := range append(append([]int(nil), r.Probs...), r.Twice...) {
			if i < 0 || i >= len(c.Universe) {
				return fmt.Errorf("problem index %d out of range", i)
			}
		}
	}
	for _, p := range c.Perms {
		if len(p) != len(c.Runs) {
			return fmt.Errorf("order %v does not list %d runs", p, len(c.Runs))
		}
		q := append([]int(nil), p...)
		sort.Ints(q)
		for i := range q {
			if q[i] != i {
				return fmt.Errorf("order %v is not a permutation", p)
			}
		}
	}
	return nil
}

func (c *Case) wireRun(r Run) wireResult {
	w := wireResult{CheckedFiles: append([]string(nil), r.Checked...)}
	for _, i := range r.Probs {
		w.Diagnostics = append(w.Diagnostics, c.Universe[i].wire(r.Build))
	}
	for _, i := range r.Twice {
		w.Diagnostics = append(w.Diagnostics, c.Universe[i].wire(r.Build))
	}
	return w
}

func (c *Case) modelRuns() []mrun {
	var out []mrun
	for _, r := range c.Runs {
		m := mrun{build: r.Build, checked: map[string]bool{}, has: map[string]Problem{}}
		for _, f := range r.Checked {
			m.checked[f] = true
		}
		for _, i := range r.Probs {
			m.has[c.Universe[i].desc()] = c.Universe[i]
		}
		out = append(out, m)
	}
	return out
}

func (c *Case) render() string {
	var sb strings.Builder
	for i, r := range c.Runs {
		fmt.Fprintf(&sb, "run %d: build %q, checked files %v\n", i, r.Build, r.Checked)
		for _, j := range r.Probs {
			p := c.Universe[j]
			strat := "any"
			if p.All {
				strat = "all"
			}
			extra := ""
			if p.Ignored {
				extra = ", ignored"
			}
			fmt.Fprintf(&sb, "    %s:%d:%d (end %d:%d) %s [%s%s] %q\n", p.File, p.Line, p.Col, p.EndLine, p.EndCol, p.Cat, strat, extra, p.Msg)
		}
	}
	return sb.String()
}

// canonical is the order-independent rendering used for the distinctness hash.
func (c *Case) canonical() string {
	var rs []string
	for _, r := range c.Runs {
		ch := append([]string(nil), r.Checked...)
		sort.Strings(ch)
		var ps []string
		for _, j := range r.Probs {
			p := c.Universe[j]
			ps = append(ps, fmt.Sprintf("%s|%v|%v|%s", p.desc(), p.All, p.Ignored, p.Related))
		}
		sort.Strings(ps)
		rs = append(rs, fmt.Sprintf("%q %v %v", r.Build, ch, ps))
	}
	sort.Strings(rs)
	return strings.Join(rs, "\n")
}

type features struct {
	nontrivial bool
	tie        bool // two reported problems share position and message
	classes    []string
}

func (c *Case) classify() features {
	var f features
	runs := c.modelRuns()
	cls := map[string]bool{}
	allMissingOne, anySingle := false, false
	reported := map[string]Problem{}
	for _, r := range runs {
		for k, p := range r.has {
			reported[k] = p
			if !r.checked[p.File] {
				cls["run_reports_on_file_it_did_not_check"] = true
			}
		}
	}
	tk := map[string]int{}
	for k, p := range reported {
		tk[p.tieKey()]++
		nrep, nmiss, nunchecked := 0, 0, 0
		builds := map[string]bool{}
		for _, r := range runs {
			if _, ok := r.has[k]; ok {
				nrep++
				builds[r.build] = true
			} else if r.checked[p.File] {
				nmiss++
			} else {
				nunchecked++
			}
		}
		if nunchecked > 0 {
			cls["problem_on_file_some_run_did_not_check"] = true
		}
		if len(builds) > 1 {
			cls["problem_under_several_builds"] = true
		}
		if p.All {
			switch {
			case nmiss == 1:
				allMissingOne = true
				cls["all_problem_missing_from_exactly_one_checking_run"] = true
			case nmiss > 1:
				cls["all_problem_missing_from_several_checking_runs"] = true
			case nunchecked > 0:
				cls["all_problem_kept_because_other_runs_did_not_check_file"] = true
			default:
				cls["all_problem_in_every_run"] = true
			}
		} else {
			if nrep == 1 && len(runs) > 1 {
				anySingle = true
				cls["any_problem_in_exactly_one_run"] = true
			}
		}
		if p.Ignored {
			cls["ignored_problem"] = true
		}
		if p.Related != "" {
			cls["problem_with_related_information"] = true
		}
	}
	for _, n := range tk {
		if n > 1 {
			f.tie = true
			cls["problems_tie_on_position_and_message"] = true
		}
	}
	for i := range c.Runs {
		for j := 0; j < i; j++ {
			a, _ := json.Marshal(c.Runs[i])
			b, _ := json.Marshal(c.Runs[j])
			if bytes.Equal(a, b) {
				cls["duplicated_run"] = true
			}
		}
		if len(c.Runs[i].Twice) > 0 {
			cls["problem_listed_twice_in_a_run"] = true
		}
	}
	names := map[string]bool{}
	for _, r := range c.Runs {
		names[r.Build] = true
	}
	switch {
	case names[""] && len(names) == 1:
		cls["no_build_names"] = true
	case names[""]:
		cls["named_and_unnamed_runs_mixed"] = true
	}
	cls[fmt.Sprintf("crafted_runs_%d", len(c.Runs))] = true
	cls["input_"+c.Input] = true
	f.nontrivial = len(c.Runs) >= 2 && allMissingOne && anySingle
	for k := range cls {
		f.classes = append(f.classes, k)
	}
	sort.Strings(f.classes)
	f.classes = append(f.classes, "crafted_case")
	return f
}

// ---------------------------------------------------------------- running the real binary

func staticcheckBin() string { return filepath.Join(ev.BinDir(), "staticcheck") }

type result struct {
	out  string
	errs string
	code int
}

func runTool(dir string, env []string, stdin []byte, args ...string) (result, error) {
	cmd := exec.Command(staticcheckBin(), args...)
	cmd.Dir = dir
	cmd.Env = append(os.Environ(), env...)
	cmd.Stdin = bytes.NewReader(stdin)
	var o, e bytes.Buffer
	cmd.Stdout, cmd.Stderr = &o, &e
	err := cmd.Run()
	r := result{out: o.String(), errs: e.String()}
	if err != nil {
		ee, ok := err.(*exec.ExitError)
		if !ok {
			return r, err
		}
		r.code = ee.ExitCode()
	}
	return r, nil
}

// merge feeds the segments, in the given order, to `staticcheck -merge`.
func merge(dir string, segs [][]byte, order []int, format, input string, showIgnored bool) (result, error) {
	args := []string{"-merge", "-f", format}
	if showIgnored {
		args = append(args, "-show-ignored")
	}
	var stream []byte
	var parts [][]byte
	for _, i := range order {
		stream = append(stream, segs[i]...)
		parts = append(parts, segs[i])
	}
	var stdin []byte
	write := func(name string, b []byte) error {
		args = append(args, name)
		return os.WriteFile(filepath.Join(dir, name), b, 0o644)
	}
	switch input {
	case "onefile":
		if err := write("runs.bin", stream); err != nil {
			return result{}, err
		}
	case "files":
		for k, p := range parts {
			if err := write(fmt.Sprintf("run%d.bin", k), p); err != nil {
				return result{}, err
			}
		}
	case "split":
		h := (len(parts) + 1) / 2
		var a, b []byte
		for k, p := range parts {
			if k < h {
				a = append(a, p...)
			} else {
				b = append(b, p...)
			}
		}
		if err := write("first.bin", a); err != nil {
			return result{}, err
		}
		if err := write("second.bin", b); err != nil {
			return result{}, err
		}
	default:
		stdin = stream
	}
	return runTool(dir, []string{"STATICCHECK_CACHE=" + filepath.Join(dir, "cache")}, stdin, args...)
}

// registered is what cmd/staticcheck registers; it only influences severities
// and the exit status.
var registered = rn.Lint(false)

// mergeInProcess runs the implementation of `staticcheck -merge` (the same
// lintcmd.Command cmd/staticcheck builds) inside the test process on the
// segment files seg<i>.bin, passed as file arguments in the given order. Used
// for the many executions the algebraic laws need; the comparison with the
// reference model always uses the real binary, and the two are cross-checked
// on every case.
func mergeInProcess(dir string, order []int, format string, showIgnored bool) (res result, err error) {
	args := []string{"-merge", "-f", format}
	if showIgnored {
		args = append(args, "-show-ignored")
	}
	for _, i := range order {
		args = append(args, filepath.Join(dir, fmt.Sprintf("seg%d.bin", i)))
	}
	outF, err := os.Create(filepath.Join(dir, "stdout.txt"))
	if err != nil {
		return res, err
	}
	errF, err := os.Create(filepath.Join(dir, "stderr.txt"))
	if err != nil {
		outF.Close()
		return res, err
	}
	cmd := lintcmd.NewCommand("staticcheck")
	cmd.AddAnalyzers(registered...)
	cmd.ParseFlags(args)
	oldOut, oldErr := os.Stdout, os.Stderr
	func() {
		defer func() {
			os.Stdout, os.Stderr = oldOut, oldErr
			outF.Close()
			errF.Close()
		}()
		os.Stdout, os.Stderr = outF, errF
		res.code = cmd.Execute()
	}()
	o, err := os.ReadFile(outF.Name())
	if err != nil {
		return res, err
	}
	e, _ := os.ReadFile(errF.Name())
	res.out, res.errs = string(o), string(e)
	return res, nil
}

type jsonLine struct {
	Code     string `json:"code"`
	Severity string `json:"severity"`
	Location struct {
		File   string `json:"file"`
		Line   int    `json:"line"`
		Column int    `json:"column"`
	} `json:"location"`
	End struct {
		File   string `json:"file"`
		Line   int    `json:"line"`
		Column int    `json:"column"`
	} `json:"end"`
	Message string `json:"message"`
	Related []struct {
		Location struct {
			File   string `json:"file"`
			Line   int    `json:"line"`
			Column int    `json:"column"`
		} `json:"location"`
		Message string `json:"message"`
	} `json:"related"`
}

func parseJSONKeys(out string) ([]string, error) {
	var keys []string
	dec := json.NewDecoder(strings.NewReader(out))
	for dec.More() {
		var l jsonLine
		if err := dec.Decode(&l); err != nil {
			return nil, err
		}
		ev.Count("json_severity_"+l.Severity, 1)
		rel := ""
		for _, r := range l.Related {
			rel += fmt.Sprintf(" related %s:%d:%d %q", r.Location.File, r.Location.Line, r.Location.Column, r.Message)
		}
		keys = append(keys, fmt.Sprintf("%s %s:%d:%d-%s:%d:%d %q%s", l.Code, l.Location.File, l.Location.Line, l.Location.Column, l.End.File, l.End.Line, l.End.Column, l.Message, rel))
	}
	return keys, nil
}

func identity(n int) []int {
	o := make([]int, n)
	for i := range o {
		o[i] = i
	}
	return o
}

func permutations(n int) [][]int {
	var out [][]int
	var rec func(cur []int, used []bool)
	rec = func(cur []int, used []bool) {
		if len(cur) == n {
			out = append(out, append([]int(nil), cur...))
			return
		}
		for i := 0; i < n; i++ {
			if !used[i] {
				used[i] = true
				rec(append(cur, i), used)
				used[i] = false
			}
		}
	}
	rec(nil, make([]bool, n))
	return out
}

func toolFailed(r result) bool {
	return r.code != 0 && r.code != 1
}

// evaluate returns a violation message (empty: the property holds on the case)
// or an infrastructure problem.
func evaluate(c *Case, dir string) (msg string, infra string) {
	var segs [][]byte
	for _, r := range c.Runs {
		b, err := encodeRun(c.wireRun(r))
		if err != nil {
			return "", "gob: " + err.Error()
		}
		segs = append(segs, b)
	}
	for i, b := range segs {
		if err := os.WriteFile(filepath.Join(dir, fmt.Sprintf("seg%d.bin", i)), b, 0o644); err != nil {
			return "", err.Error()
		}
	}
	want := modelMerge(c.modelRuns())
	var shown []merged
	for _, m := range want {
		if !m.P.Ignored || c.ShowIgnored {
			shown = append(shown, m)
		}
	}
	n := len(c.Runs)
	id := identity(n)

	// 1. reference model vs -f text (carries the build names)
	base, err := merge(dir, segs, id, "text", c.Input, c.ShowIgnored)
	if err != nil {
		return "", err.Error()
	}
	if toolFailed(base) {
		return "", fmt.Sprintf("staticcheck -merge exited with %d: %s", base.code, base.errs)
	}
	var wantBlocks []string
	for _, m := range shown {
		wantBlocks = append(wantBlocks, m.textBlock())
	}
	if d := diffMultisets(wantBlocks, splitTextBlocks(base.out)); d != "" {
		return fmt.Sprintf("`staticcheck -merge -f text` differs from the merge semantics (any: some run; all: every run that checked the file; build names of the reporting runs)\n%sruns:\n%soutput:\n%s", d, c.render(), base.out), ""
	}

	// 2. reference model vs -f json (one line per problem, no build names)
	js, err := merge(dir, segs, id, "json", c.Input, c.ShowIgnored)
	if err != nil {
		return "", err.Error()
	}
	if toolFailed(js) {
		return "", fmt.Sprintf("staticcheck -merge -f json exited with %d: %s", js.code, js.errs)
	}
	gotKeys, err := parseJSONKeys(js.out)
	if err != nil {
		return fmt.Sprintf("`staticcheck -merge -f json` printed something that is not JSON: %v\n%s", err, js.out), ""
	}
	var wantKeys []string
	for _, m := range shown {
		wantKeys = append(wantKeys, m.jsonKey())
	}
	if d := diffMultisets(wantKeys, gotKeys); d != "" {
		return fmt.Sprintf("`staticcheck -merge -f json` differs from the merge semantics\n%sruns:\n%soutput:\n%s", d, c.render(), js.out), ""
	}
	if base.code != js.code {
		ev.Count("exit_status_differs_between_text_and_json", 1) // not a matter of merging: counted, not asserted
	}

	// 3. the in-process execution of the same command agrees with the binary
	inproc, err := mergeInProcess(dir, id, "text", c.ShowIgnored)
	if err != nil {
		return "", err.Error()
	}
	if inproc.out != base.out || inproc.code != base.code {
		return fmt.Sprintf("two executions of -merge on the same runs in the same order differ: the binary gives (exit %d)\n%sthe command executed in the test process gives (exit %d)\n%s%sruns:\n%s", base.code, base.out, inproc.code, inproc.out, inproc.errs, c.render()), ""
	}

	// 4. the order of the runs does not matter: real binary on the reversed order, in-process on all orders
	if n > 1 {
		rev := make([]int, n)
		for i := range rev {
			rev[i] = n - 1 - i
		}
		r, err := merge(dir, segs, rev, "text", "stdin", c.ShowIgnored)
		if err != nil {
			return "", err.Error()
		}
		ev.Count("orders_compared_binary", 1)
		if r.out != base.out || r.code != base.code {
			return fmt.Sprintf("the result of -merge depends on the order of the runs: order %v gives (exit %d)\n%sorder %v gives (exit %d)\n%sruns:\n%s", id, base.code, base.out, rev, r.code, r.out, c.render()), ""
		}
	}
	orders := c.Perms
	if n <= 4 {
		orders = permutations(n)
	}
	for _, o := range orders {
		r, err := mergeInProcess(dir, o, "text", c.ShowIgnored)
		if err != nil {
			return "", err.Error()
		}
		ev.Count("orders_compared", 1)
		if r.out != base.out || r.code != base.code {
			return fmt.Sprintf("the result of -merge depends on the order of the runs: order %v gives (exit %d)\n%sorder %v gives (exit %d)\n%sruns:\n%s", id, base.code, base.out, o, r.code, r.out, c.render()), ""
		}
	}

	// 5. repeating a run changes nothing
	for i := 0; i <= n; i++ {
		var o []int
		if i == n {
			o = append(append(o, id...), id...) // every run twice
		} else {
			o = append(append(o, i), id...) // run i once more, in front
			if i%2 == 1 {
				o = append(append([]int(nil), id...), i) // or at the end
			}
		}
		var r result
		var err error
		r, err = mergeInProcess(dir, o, "text", c.ShowIgnored)
		if err != nil {
			return "", err.Error()
		}
		ev.Count("repetitions_compared", 1)
		if r.out != base.out || r.code != base.code {
			return fmt.Sprintf("repeating a run changes the result of -merge: runs %v give (exit %d)\n%sruns %v give (exit %d)\n%sruns:\n%s", id, base.code, base.out, o, r.code, r.out, c.render()), ""
		}
	}
	return "", ""
}

// check evaluates a case and applies the known-finding suppression.
func check(c *Case) (msg, infra string, f features) {
	f = c.classify()
	dir, err := os.MkdirTemp("", "c12-")
	if err != nil {
		return "", err.Error(), f
	}
	defer os.RemoveAll(dir)
	msg, infra = evaluate(c, dir)
	if msg != "" && f.tie && ev.IsKnown(sigTie) {
		ev.KnownFinding(sigTie, "problems that share position and message but differ in check or end are printed once per build instead of once with all build names")
		msg = ""
	}
	return msg, infra, f
}

func TestCrafted(t *testing.T) {
	ev.Rule(rule)
	ev.Assume("the mirror types in wire_test.go describe the gob stream of `-f binary` (cross-checked in TestMatrix, which decodes real `-f binary` output with them and re-merges the original bytes)")
	ev.Assume("the rendering of -f text is `file:line:col: message [builds] (check)` with the build names sorted and comma-separated, as shown in the documentation of -matrix; -f json carries no build names")
	if _, err := os.Stat(staticcheckBin()); err != nil {
		ev.Infra("staticcheck binary missing: %v", err)
		t.Fatal(err)
	}
	ev.Check(t, "TestCrafted", func(rt *rapid.T) {
		c := genCase(rt)
		b, _ := json.Marshal(c)
		ev.Begin("TestCrafted", "json", b)
		msg, infra, f := check(c)
		if infra != "" {
			ev.Infra("%s (case %s)", infra, b)
			rt.Skip(infra)
		}
		ev.Case(ev.Hash(c.canonical()), f.nontrivial, f.classes...)
		if f.nontrivial && ev.WantSample() {
			ev.Sample(map[string]any{"kind": "crafted", "case": c})
		}
		if msg != "" {
			ev.Failf(rt, "TestCrafted", "%s", msg)
		}
	})
}

// ---------------------------------------------------------------- corpus / replay

func replayFile(t *testing.T, f, test string) {
	b, err := os.ReadFile(f)
	if err != nil {
		ev.Infra("read %s: %v", f, err)
		return
	}
	var msg, infra string
	if strings.Contains(strings.ToLower(filepath.Base(f)), "matrix") {
		var c MCase
		if err := json.Unmarshal(b, &c); err != nil {
			ev.Infra("decode %s: %v", f, err)
			return
		}
		msg, infra = checkMatrix(&c)
	} else {
		var c Case
		if err := json.Unmarshal(b, &c); err != nil {
			ev.Infra("decode %s: %v", f, err)
			return
		}
		if err := c.validate(); err != nil {
			ev.Infra("%s: %v", f, err)
			return
		}
		var ft features
		msg, infra, ft = check(&c)
		if infra == "" {
			ev.Case(ev.Hash(c.canonical()), ft.nontrivial, ft.classes...)
		}
	}
	if infra != "" {
		ev.Infra("%s: %s", f, infra)
		return
	}
	if msg != "" {
		ev.Violate(test, fmt.Sprintf("replay of %s:\n%s", f, msg), "json", b)
		t.Errorf("%s", msg)
	} else {
		t.Logf("replay %s: property holds", f)
	}
}

func TestCorpus(t *testing.T) {
	if os.Getenv("VERIF_SECONDARY") != "" {
		return
	}
	files, _ := filepath.Glob(filepath.Join(os.Getenv("VERIF_ROOT"), "corpus", "C12", "*.json"))
	sort.Strings(files)
	for _, f := range files {
		replayFile(t, f, "TestCorpus")
	}
}

func TestReplay(t *testing.T) {
	if f := ev.ReplayFile(); f != "" {
		replayFile(t, f, "TestReplay")
	}
}
