package c12

import (
	"fmt"
	"go/token"
	"sort"
	"strings"
)

// Reference model of merging, written from the documentation
// (website/content/docs/running-staticcheck/cli/build-tags) and the statement
// of the property; shares no code with lintcmd.

// Problem is one reportable problem. Its identity is the descriptor
// (File, Line, Col, EndLine, EndCol, Cat, Msg).
type Problem struct {
	File    string `json:"file"`
	Line    int    `json:"line"`
	Col     int    `json:"col"`
	EndLine int    `json:"end_line"` // 0: the problem has no end position
	EndCol  int    `json:"end_col"`
	Cat     string `json:"cat"`
	All     bool   `json:"all"` // merge strategy of the check: true = all runs, false = any run
	Msg     string `json:"msg"`
	Ignored bool   `json:"ignored,omitempty"` // matched by a //lint:ignore directive
	Related string `json:"related,omitempty"` // message of one piece of related information on the next line
}

type Run struct {
	Build   string   `json:"build"`
	Checked []string `json:"checked"`
	Probs   []int    `json:"probs"`         // indices into the universe
	Twice   []int    `json:"twice,omitempty"` // problems listed twice in the run (one file in two packages)
}

func (p Problem) desc() string {
	return fmt.Sprintf("%s:%d:%d-%d:%d %s %q", p.File, p.Line, p.Col, p.EndLine, p.EndCol, p.Cat, p.Msg)
}

// tieKey is what two different problems must not share on the unchanged tree
// (known finding): position and message.
func (p Problem) tieKey() string {
	return fmt.Sprintf("%s:%d:%d %q", p.File, p.Line, p.Col, p.Msg)
}

func (p Problem) wire(build string) wireDiag {
	d := wireDiag{
		Diagnostic: wireRunnerDiag{
			Position: token.Position{Filename: p.File, Line: p.Line, Column: p.Col},
			Category: p.Cat,
			Message:  p.Msg,
		},
		BuildName: build,
	}
	if p.EndLine != 0 {
		d.Diagnostic.End = token.Position{Filename: p.File, Line: p.EndLine, Column: p.EndCol}
	}
	if p.All {
		d.MergeIf = mergeAll
	}
	if p.Ignored {
		d.Severity = sevIgnored
	}
	if p.Related != "" {
		d.Diagnostic.Related = []wireRelated{{
			Position: token.Position{Filename: p.File, Line: p.Line + 1, Column: 1},
			Message:  p.Related,
		}}
	}
	return d
}

func problemFromWire(d wireDiag) Problem {
	p := Problem{
		File: d.Diagnostic.Position.Filename, Line: d.Diagnostic.Position.Line, Col: d.Diagnostic.Position.Column,
		EndLine: d.Diagnostic.End.Line, EndCol: d.Diagnostic.End.Column,
		Cat: d.Diagnostic.Category, Msg: d.Diagnostic.Message,
		All: d.MergeIf == mergeAll, Ignored: d.Severity == sevIgnored,
	}
	return p
}

// merged is one line of the expected result.
type merged struct {
	P      Problem
	Builds []string // sorted, without repetition
}

// mrun is a run as the model sees it.
type mrun struct {
	build   string
	checked map[string]bool
	has     map[string]Problem // by descriptor
}

func modelMerge(runs []mrun) []merged {
	all := map[string]Problem{}
	for _, r := range runs {
		for k, p := range r.has {
			all[k] = p
		}
	}
	var keys []string
	for k := range all {
		keys = append(keys, k)
	}
	sort.Strings(keys)
	var out []merged
	for _, k := range keys {
		p := all[k]
		keep := true
		builds := map[string]bool{}
		for _, r := range runs {
			_, reported := r.has[k]
			if reported {
				builds[r.build] = true
			} else if p.All && r.checked[p.File] {
				// a run that looked at the file and did not see the problem vetoes an "all" problem
				keep = false
			}
		}
		if !keep {
			continue
		}
		m := merged{P: p}
		for b := range builds {
			m.Builds = append(m.Builds, b)
		}
		sort.Strings(m.Builds)
		out = append(out, m)
	}
	return out
}

// textBlock is the rendering of one problem by the text formatter: the
// position, the message, the build names in brackets when there are any, the
// check in parentheses; one indented line per piece of related information.
func (m merged) textBlock() string {
	names := strings.Join(m.Builds, ",")
	s := fmt.Sprintf("%s:%d:%d: %s", m.P.File, m.P.Line, m.P.Col, m.P.Msg)
	if names != "" {
		s += " [" + names + "]"
	}
	s += " (" + m.P.Cat + ")\n"
	if m.P.Related != "" {
		s += fmt.Sprintf("\t%s:%d:%d: %s\n", m.P.File, m.P.Line+1, 1, m.P.Related)
	}
	return s
}

// jsonKey is the rendering-independent content of one line of -f json (which
// carries no build names). The severity field is not part of it: it is decided
// by -fail and -show-ignored, not by merging.
func (m merged) jsonKey() string {
	ef := ""
	if m.P.EndLine != 0 {
		ef = m.P.File
	}
	rel := ""
	if m.P.Related != "" {
		rel = fmt.Sprintf(" related %s:%d:%d %q", m.P.File, m.P.Line+1, 1, m.P.Related)
	}
	return fmt.Sprintf("%s %s:%d:%d-%s:%d:%d %q%s", m.P.Cat, m.P.File, m.P.Line, m.P.Col, ef, m.P.EndLine, m.P.EndCol, m.P.Msg, rel)
}

// splitTextBlocks cuts the output of -f text into blocks (a line plus the
// indented lines following it).
func splitTextBlocks(out string) []string {
	var blocks []string
	for _, line := range strings.SplitAfter(out, "\n") {
		if line == "" {
			continue
		}
		if strings.HasPrefix(line, "\t") && len(blocks) > 0 {
			blocks[len(blocks)-1] += line
		} else {
			blocks = append(blocks, line)
		}
	}
	return blocks
}

func diffMultisets(want, got []string) string {
	w := append([]string(nil), want...)
	g := append([]string(nil), got...)
	sort.Strings(w)
	sort.Strings(g)
	var sb strings.Builder
	i, j := 0, 0
	for i < len(w) || j < len(g) {
		switch {
		case j >= len(g) || (i < len(w) && w[i] < g[j]):
			fmt.Fprintf(&sb, "  missing:    %s\n", strings.TrimRight(w[i], "\n"))
			i++
		case i >= len(w) || g[j] < w[i]:
			fmt.Fprintf(&sb, "  unexpected: %s\n", strings.TrimRight(g[j], "\n"))
			j++
		default:
			i++
			j++
		}
	}
	return sb.String()
}
