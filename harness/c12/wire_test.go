package c12

import (
	"bytes"
	"encoding/gob"
	"fmt"
	"go/token"
	"io"
)

// Mirror of the gob stream written by `staticcheck -f binary`
// (lintcmd.lintResult; one independent gob stream per run, concatenated).
// gob matches struct fields by name, the embedded runner.Diagnostic of
// lintcmd.diagnostic is transmitted as a field named "Diagnostic".

type wireResult struct {
	CheckedFiles []string
	Diagnostics  []wireDiag
	Warnings     []string
}

type wireDiag struct {
	Diagnostic wireRunnerDiag
	Severity   uint8 // 0 error, 1 warning, 2 ignored
	MergeIf    int   // 0 any, 1 all
	BuildName  string
}

type wireRunnerDiag struct {
	Position       token.Position
	End            token.Position
	Category       string
	Message        string
	SuggestedFixes []wireFix
	Related        []wireRelated
}

type wireRelated struct {
	Position token.Position
	End      token.Position
	Message  string
}

type wireFix struct {
	Message   string
	TextEdits []wireEdit
}

type wireEdit struct {
	Position token.Position
	End      token.Position
	NewText  []byte
}

const (
	sevError   = 0
	sevIgnored = 2
	mergeAny   = 0
	mergeAll   = 1
)

func encodeRun(r wireResult) ([]byte, error) {
	var buf bytes.Buffer
	if err := gob.NewEncoder(&buf).Encode(r); err != nil {
		return nil, err
	}
	return buf.Bytes(), nil
}

// byteReader makes gob read exactly the bytes of one stream (gob wraps readers
// that are not io.ByteReaders in a bufio.Reader, which would read ahead).
type byteReader struct {
	b   []byte
	pos int
}

func (r *byteReader) Read(p []byte) (int, error) {
	if r.pos >= len(r.b) {
		return 0, io.EOF
	}
	n := copy(p, r.b[r.pos:])
	r.pos += n
	return n, nil
}

func (r *byteReader) ReadByte() (byte, error) {
	if r.pos >= len(r.b) {
		return 0, io.EOF
	}
	c := r.b[r.pos]
	r.pos++
	return c, nil
}

// decodeRuns splits a concatenation of `-f binary` outputs into runs and
// returns each run together with the bytes it occupied.
func decodeRuns(b []byte) (runs []wireResult, segs [][]byte, err error) {
	br := &byteReader{b: b}
	for br.pos < len(b) {
		start := br.pos
		var res wireResult
		if err := gob.NewDecoder(br).Decode(&res); err != nil {
			return nil, nil, fmt.Errorf("run %d at offset %d: %v", len(runs), start, err)
		}
		runs = append(runs, res)
		segs = append(segs, b[start:br.pos])
	}
	return runs, segs, nil
}
