package c12

import (
	"encoding/json"
	"fmt"
	"os"
	"path/filepath"
	"regexp"
	"sort"
	"strings"
	"testing"
	"time"

	"pgregory.net/rapid"
	"verif/harness/internal/ev"
)

// Sub-check (b): real build matrices over a generated module.

type buildCfg struct {
	goos string
	foo  bool
}

var cfgPool = map[string]buildCfg{
	"linux":       {"linux", false},
	"windows":     {"windows", false},
	"linux_foo":   {"linux", true},
	"windows_foo": {"windows", true},
}

var cfgNames = []string{"linux", "windows", "linux_foo", "windows_foo"}

func cfgLine(name string) string {
	c := cfgPool[name]
	s := name + ": GOOS=" + c.goos
	if c.foo {
		s += " -tags=foo"
	}
	return s + "\n"
}

func sat(name, cons string) bool {
	c := cfgPool[name]
	switch cons {
	case "linux":
		return c.goos == "linux"
	case "windows":
		return c.goos == "windows"
	case "foo":
		return c.foo
	case "nofoo":
		return !c.foo
	}
	return false
}

var consNames = []string{"linux", "windows", "foo", "nofoo"}

func consFile(cons string) string { return "p/c_" + cons + ".go" }

// Slot is one independent feature of the generated package.
type Slot struct {
	// unused_shared: unexported func in shared.go, called only from the file with constraint Cons (U1000, all)
	// unused_tagged: unexported, never called func in the constrained file (U1000, all)
	// any_tagged:    x == x in the constrained file (SA4000, any)
	// any_shared:    for _ = range in shared.go (S1005, any)
	// any_typed:     v == v in shared.go, v of a type that is float64 in one file of Pair and int in the other (SA4000, any; not reported for floats)
	// all_typed:     v < 0 in shared.go, v of a type that is uint in one file of Pair and int in the other (SA4003, all)
	// all_tagged:    v < 0 with v uint in the constrained file (SA4003, all)
	Kind  string `json:"kind"`
	Cons  string `json:"cons,omitempty"`
	Pair  string `json:"pair,omitempty"`  // os: c_linux.go / c_windows.go; tag: c_foo.go / c_nofoo.go
	First bool   `json:"first,omitempty"` // the triggering type is declared in the first file of the pair
}

type MCase struct {
	Configs []string `json:"configs"`
	Slots   []Slot   `json:"slots"`
}

var slotKinds = []string{"unused_shared", "unused_tagged", "any_tagged", "any_shared", "any_typed", "all_typed", "all_tagged"}

func genMatrix(t *rapid.T) *MCase {
	c := &MCase{}
	n := rapid.IntRange(2, 3).Draw(t, "nconfigs")
	c.Configs = rapid.Permutation(cfgNames).Draw(t, "configs")[:n]
	ns := rapid.IntRange(3, 8).Draw(t, "nslots")
	for i := 0; i < ns; i++ {
		s := Slot{Kind: slotKinds[rapid.IntRange(0, len(slotKinds)-1).Draw(t, "kind")]}
		switch s.Kind {
		case "unused_shared", "unused_tagged", "any_tagged", "all_tagged":
			s.Cons = consNames[rapid.IntRange(0, 3).Draw(t, "cons")]
		case "any_typed", "all_typed":
			s.Pair = []string{"os", "tag"}[rapid.IntRange(0, 1).Draw(t, "pair")]
			s.First = rapid.Bool().Draw(t, "first")
		}
		c.Slots = append(c.Slots, s)
	}
	return c
}

type expected struct {
	file   string
	line   int
	cat    string
	builds []string
}

func (e expected) String() string {
	return fmt.Sprintf("%s:%d (%s) [%s]", e.file, e.line, e.cat, strings.Join(e.builds, ","))
}

// build writes the module and returns the outcome the documentation promises.
// The module is written twice: to dir, and to other with CRLF line endings (a
// checkout of the same code on another system, at another absolute path).
func (c *MCase) build(dir, other string) (exp []expected, nontrivial bool, classes []string, err error) {
	files := map[string][]string{
		"p/shared.go":    {"package p", ""},
		"p/c_linux.go":   {"package p", ""},
		"p/c_windows.go": {"package p", ""},
		"p/c_foo.go":     {"//go:build foo", "", "package p", ""},
		"p/c_nofoo.go":   {"//go:build !foo", "", "package p", ""},
	}
	add := func(file string, lines ...string) int {
		first := len(files[file]) + 1
		files[file] = append(files[file], lines...)
		files[file] = append(files[file], "")
		return first
	}
	allBuilds := append([]string(nil), c.Configs...)
	sort.Strings(allBuilds)
	satisfying := func(cons string) []string {
		var out []string
		for _, n := range allBuilds {
			if sat(n, cons) {
				out = append(out, n)
			}
		}
		return out
	}
	pairFiles := func(s Slot) (trigger, other string, triggerCons string) {
		a, b := "linux", "windows"
		if s.Pair == "tag" {
			a, b = "foo", "nofoo"
		}
		if !s.First {
			a, b = b, a
		}
		return consFile(a), consFile(b), a
	}
	cls := map[string]bool{}
	vetoed, anySubset := false, false
	for i, s := range c.Slots {
		switch s.Kind {
		case "unused_shared":
			l := add("p/shared.go", fmt.Sprintf("func helper%d() {}", i))
			add(consFile(s.Cons), fmt.Sprintf("func Use%d() { helper%d() }", i, i))
			users := satisfying(s.Cons)
			switch {
			case len(users) == 0:
				exp = append(exp, expected{"p/shared.go", l, "U1000", allBuilds})
				cls["matrix_all_problem_in_every_configuration"] = true
			case len(users) < len(allBuilds):
				vetoed = true
				cls["matrix_all_problem_vetoed_by_some_configuration"] = true
			}
		case "unused_tagged":
			l := add(consFile(s.Cons), fmt.Sprintf("func dead%d() {}", i))
			if b := satisfying(s.Cons); len(b) > 0 {
				exp = append(exp, expected{consFile(s.Cons), l, "U1000", b})
				if len(b) < len(allBuilds) {
					cls["matrix_all_problem_on_file_only_some_configurations_check"] = true
				}
			}
		case "all_tagged":
			l := add(consFile(s.Cons), fmt.Sprintf("func CmpU%d(v uint) bool { return v < 0 }", i))
			if b := satisfying(s.Cons); len(b) > 0 {
				exp = append(exp, expected{consFile(s.Cons), l, "SA4003", b})
				if len(b) < len(allBuilds) {
					cls["matrix_all_problem_on_file_only_some_configurations_check"] = true
				}
			}
		case "any_tagged":
			l := add(consFile(s.Cons), fmt.Sprintf("func Any%d(x int) bool { return x == x }", i))
			if b := satisfying(s.Cons); len(b) > 0 {
				exp = append(exp, expected{consFile(s.Cons), l, "SA4000", b})
			}
		case "any_shared":
			l := add("p/shared.go", fmt.Sprintf("func Shared%d(xs []int) {", i), "\tfor _ = range xs {", "\t}", "}")
			exp = append(exp, expected{"p/shared.go", l + 1, "S1005", allBuilds})
		case "all_typed":
			trig, other, cons := pairFiles(s)
			add(trig, fmt.Sprintf("type T%d uint", i))
			add(other, fmt.Sprintf("type T%d int", i))
			l := add("p/shared.go", fmt.Sprintf("func Cmp%d(v T%d) bool { return v < 0 }", i, i))
			b := satisfying(cons)
			switch {
			case len(b) == len(allBuilds):
				exp = append(exp, expected{"p/shared.go", l, "SA4003", allBuilds})
				cls["matrix_all_problem_in_every_configuration"] = true
			case len(b) > 0:
				vetoed = true
				cls["matrix_all_problem_vetoed_by_some_configuration"] = true
			}
		case "any_typed":
			trig, other, cons := pairFiles(s)
			add(trig, fmt.Sprintf("type F%d int", i))
			add(other, fmt.Sprintf("type F%d float64", i))
			l := add("p/shared.go", fmt.Sprintf("func Eq%d(v F%d) bool { return v == v }", i, i))
			if b := satisfying(cons); len(b) > 0 {
				exp = append(exp, expected{"p/shared.go", l, "SA4000", b})
				if len(b) < len(allBuilds) {
					anySubset = true
					cls["matrix_any_problem_in_shared_file_under_some_configurations"] = true
				}
			}
		default:
			return nil, false, nil, fmt.Errorf("unknown slot kind %q", s.Kind)
		}
	}
	for _, e := range exp {
		if e.cat == "SA4000" && len(e.builds) < len(allBuilds) {
			anySubset = true
		}
	}
	for _, d := range []string{dir, other} {
		nl := "\n"
		if d == other {
			nl = "\r\n"
		}
		if err := os.MkdirAll(filepath.Join(d, "p"), 0o755); err != nil {
			return nil, false, nil, err
		}
		if err := os.WriteFile(filepath.Join(d, "go.mod"), []byte("module m\n\ngo 1.26.0\n"), 0o644); err != nil {
			return nil, false, nil, err
		}
		for name, lines := range files {
			if err := os.WriteFile(filepath.Join(d, name), []byte(strings.Join(lines, nl)+nl), 0o644); err != nil {
				return nil, false, nil, err
			}
		}
	}
	for k := range cls {
		classes = append(classes, k)
	}
	sort.Strings(classes)
	classes = append(classes, "matrix_case", fmt.Sprintf("matrix_configurations_%d", len(c.Configs)))
	return exp, vetoed && anySubset, classes, nil
}

var textLineRe = regexp.MustCompile(`^(.+?):(\d+):(\d+): (.*?)(?: \[([^\]]*)\])? \(([A-Za-z0-9]+)\)\n$`)

func modelRunFromWire(w wireResult) mrun {
	m := mrun{checked: map[string]bool{}, has: map[string]Problem{}}
	for _, f := range w.CheckedFiles {
		m.checked[f] = true
	}
	for _, d := range w.Diagnostics {
		m.build = d.BuildName
		p := problemFromWire(d)
		m.has[p.desc()] = p
	}
	return m
}

func wireRunSet(w wireResult) string {
	var items []string
	for _, f := range w.CheckedFiles {
		items = append(items, "checked "+f)
	}
	for _, d := range w.Diagnostics {
		items = append(items, fmt.Sprintf("%s build=%q all=%v sev=%d", problemFromWire(d).desc(), d.BuildName, d.MergeIf == mergeAll, d.Severity))
	}
	sort.Strings(items)
	// one file can be listed once per package variant; sets are compared
	out := items[:0]
	for i, s := range items {
		if i == 0 || s != items[i-1] {
			out = append(out, s)
		}
	}
	return strings.Join(out, "\n")
}

func evaluateMatrix(c *MCase, dir string) (msg, infra string, nontrivial bool, classes []string) {
	for _, n := range c.Configs {
		if _, ok := cfgPool[n]; !ok {
			return "", "unknown configuration " + n, false, nil
		}
	}
	mod := filepath.Join(dir, "m")
	// every second configuration is checked in another checkout of the module
	// (other absolute path, CRLF line endings), as when the runs come from
	// different systems
	modB := filepath.Join(dir, "elsewhere", "deeper", "m")
	exp, nontrivial, classes, err := c.build(mod, modB)
	if err != nil {
		return "", err.Error(), false, nil
	}
	env := []string{"STATICCHECK_CACHE=" + filepath.Join(dir, "cache"), "GOFLAGS=-mod=mod", "GOPROXY=off", "GOOS=", "GOARCH=amd64", "CGO_ENABLED=0"}
	var matrix string
	for _, n := range c.Configs {
		matrix += cfgLine(n)
	}
	describe := func() string {
		var sb strings.Builder
		fmt.Fprintf(&sb, "matrix:\n%s", matrix)
		var names []string
		for _, f := range []string{"p/shared.go", "p/c_linux.go", "p/c_windows.go", "p/c_foo.go", "p/c_nofoo.go"} {
			names = append(names, f)
		}
		for _, f := range names {
			b, _ := os.ReadFile(filepath.Join(mod, f))
			fmt.Fprintf(&sb, "-- %s --\n%s", f, b)
		}
		return sb.String()
	}

	// one run per configuration, in the binary format
	var segs [][]byte
	var runs []wireResult
	for k, n := range c.Configs {
		where := mod
		if k%2 == 1 {
			where = modB
		}
		r, err := runTool(where, env, []byte(cfgLine(n)), "-matrix", "-f", "binary", "./...")
		if err != nil {
			return "", err.Error(), false, nil
		}
		if r.code != 0 {
			return "", fmt.Sprintf("staticcheck -matrix -f binary (%s) exited with %d: %s", n, r.code, r.errs), false, nil
		}
		rs, _, err := decodeRuns([]byte(r.out))
		if err != nil {
			return fmt.Sprintf("the output of `staticcheck -matrix -f binary` for configuration %s does not decode as a sequence of runs: %v\n%s", n, err, describe()), "", false, nil
		}
		if len(rs) != 1 {
			return fmt.Sprintf("`staticcheck -matrix -f binary` with the single configuration %s wrote %d runs\n%s", n, len(rs), describe()), "", false, nil
		}
		for _, d := range rs[0].Diagnostics {
			if d.Diagnostic.Category == "compile" || d.Diagnostic.Category == "config" {
				ev.Count("gen_invalid", 1)
				return "", fmt.Sprintf("generated module does not compile under %s: %s\n%s", n, d.Diagnostic.Message, describe()), false, nil
			}
			if d.BuildName != n {
				return fmt.Sprintf("a problem of the run for configuration %s carries the build name %q\n%s", n, d.BuildName, describe()), "", false, nil
			}
		}
		segs = append(segs, []byte(r.out))
		runs = append(runs, rs[0])
	}

	// the matrix in one go
	direct, err := runTool(mod, env, []byte(matrix), "-matrix", "./...")
	if err != nil {
		return "", err.Error(), false, nil
	}
	if toolFailed(direct) {
		return "", fmt.Sprintf("staticcheck -matrix exited with %d: %s", direct.code, direct.errs), false, nil
	}
	blocks := splitTextBlocks(direct.out)

	// (b1) ground truth: the outcome each feature must have under this matrix
	var got, want []string
	for _, b := range blocks {
		m := textLineRe.FindStringSubmatch(b)
		if m == nil {
			return "", fmt.Sprintf("cannot parse output line %q", b), false, nil
		}
		got = append(got, fmt.Sprintf("%s:%s (%s) [%s]", m[1], m[2], m[6], m[5]))
	}
	for _, e := range exp {
		want = append(want, e.String())
	}
	if d := diffMultisets(want, got); d != "" {
		return fmt.Sprintf("`staticcheck -matrix` does not report what the merge semantics promise for this module (file:line (check) [builds])\n%s%soutput:\n%s", d, describe(), direct.out), "", nontrivial, classes
	}

	// (b2) the reference model applied to the decoded per-configuration runs
	var mruns []mrun
	for _, w := range runs {
		mruns = append(mruns, modelRunFromWire(w))
	}
	var wantBlocks []string
	for _, m := range modelMerge(mruns) {
		if !m.P.Ignored {
			wantBlocks = append(wantBlocks, m.textBlock())
		}
	}
	if d := diffMultisets(wantBlocks, blocks); d != "" {
		return fmt.Sprintf("`staticcheck -matrix` differs from the reference merge of its per-configuration runs\n%s%soutput:\n%s", d, describe(), direct.out), "", nontrivial, classes
	}

	// (b3) -matrix == -merge of the per-configuration outputs, in every order
	for _, o := range permutations(len(segs)) {
		r, err := merge(dir, segs, o, "text", "stdin", false)
		if err != nil {
			return "", err.Error(), false, nil
		}
		ev.Count("matrix_orders_compared", 1)
		if r.out != direct.out || r.code != direct.code {
			return fmt.Sprintf("`staticcheck -matrix` (exit %d) and `staticcheck -merge` of the per-configuration `-matrix -f binary` outputs in order %v (exit %d) differ\n-matrix:\n%s-merge:\n%s%s", direct.code, o, r.code, direct.out, r.out, describe()), "", nontrivial, classes
		}
	}
	js, err := merge(dir, segs, identity(len(segs)), "json", "files", false)
	if err != nil {
		return "", err.Error(), false, nil
	}
	keys, err := parseJSONKeys(js.out)
	if err != nil {
		return fmt.Sprintf("`staticcheck -merge -f json` printed something that is not JSON: %v\n%s", err, js.out), "", nontrivial, classes
	}
	var wantKeys []string
	for _, m := range modelMerge(mruns) {
		if !m.P.Ignored {
			wantKeys = append(wantKeys, m.jsonKey())
		}
	}
	if d := diffMultisets(wantKeys, keys); d != "" {
		return fmt.Sprintf("`staticcheck -merge -f json` of the per-configuration runs differs from the reference merge\n%s%soutput:\n%s", d, describe(), js.out), "", nontrivial, classes
	}

	// (b4) -matrix -f binary with the whole matrix writes the same runs, one per configuration, in matrix order
	all, err := runTool(mod, env, []byte(matrix), "-matrix", "-f", "binary", "./...")
	if err != nil {
		return "", err.Error(), false, nil
	}
	if all.code != 0 {
		return "", fmt.Sprintf("staticcheck -matrix -f binary exited with %d: %s", all.code, all.errs), false, nil
	}
	allRuns, _, err := decodeRuns([]byte(all.out))
	if err != nil {
		return fmt.Sprintf("the output of `staticcheck -matrix -f binary` does not decode: %v\n%s", err, describe()), "", nontrivial, classes
	}
	if len(allRuns) != len(runs) {
		return fmt.Sprintf("`staticcheck -matrix -f binary` wrote %d runs for %d configurations\n%s", len(allRuns), len(runs), describe()), "", nontrivial, classes
	}
	for i := range runs {
		if a, b := wireRunSet(allRuns[i]), wireRunSet(runs[i]); a != b {
			return fmt.Sprintf("run %d of `-matrix -f binary` over the whole matrix differs from the run of configuration %s alone\nwhole matrix:\n%s\nalone:\n%s\n%s", i, c.Configs[i], a, b, describe()), "", nontrivial, classes
		}
	}
	return "", "", nontrivial, classes
}

func (c *MCase) canonical() string {
	cfg := append([]string(nil), c.Configs...)
	sort.Strings(cfg)
	var sl []string
	for _, s := range c.Slots {
		sl = append(sl, fmt.Sprintf("%s/%s/%s/%v", s.Kind, s.Cons, s.Pair, s.First))
	}
	sort.Strings(sl)
	return "matrix " + strings.Join(cfg, ",") + " " + strings.Join(sl, ",")
}

func checkMatrix(c *MCase) (msg, infra string) {
	dir, err := os.MkdirTemp("", "c12m-")
	if err != nil {
		return "", err.Error()
	}
	defer os.RemoveAll(dir)
	msg, infra, nt, classes := evaluateMatrix(c, dir)
	if infra == "" {
		ev.Case(ev.Hash(c.canonical()), nt, classes...)
		if msg == "" && nt && ev.WantSample() {
			ev.Sample(map[string]any{"kind": "matrix", "case": c})
		}
	}
	return msg, infra
}

// shrinkMatrix drops features and configurations while the case keeps failing.
func shrinkMatrix(c *MCase, msg string) (*MCase, string) {
	fails := func(d *MCase) (string, bool) {
		dir, err := os.MkdirTemp("", "c12s-")
		if err != nil {
			return "", false
		}
		defer os.RemoveAll(dir)
		m, infra, _, _ := evaluateMatrix(d, dir)
		return m, infra == "" && m != ""
	}
	stop := time.Now().Add(90 * time.Second) // each attempt runs staticcheck several times
	for changed := true; changed && time.Now().Before(stop); {
		changed = false
		for i := range c.Slots {
			if len(c.Slots) <= 1 {
				break
			}
			d := &MCase{Configs: c.Configs, Slots: append(append([]Slot(nil), c.Slots[:i]...), c.Slots[i+1:]...)}
			if m, ok := fails(d); ok {
				c, msg, changed = d, m, true
				break
			}
		}
		if changed {
			continue
		}
		for i := range c.Configs {
			if len(c.Configs) <= 1 {
				break
			}
			d := &MCase{Slots: c.Slots, Configs: append(append([]string(nil), c.Configs[:i]...), c.Configs[i+1:]...)}
			if m, ok := fails(d); ok {
				c, msg, changed = d, m, true
				break
			}
		}
	}
	return c, msg
}

func TestMatrix(t *testing.T) {
	ev.Rule(rule)
	ev.Assume("outcome of the generated features: U1000 flags an unexported function nobody calls in that build; SA4003 flags v < 0 for unsigned v; SA4000 flags x == x except for floats; S1005 flags `for _ = range`; file selection by _GOOS suffix and //go:build foo / !foo")
	n := ev.EnvInt("C12_MATRICES", 16, 64)
	for i := 0; i < n; i++ {
		if i%ev.NShards() != ev.Shard() {
			continue
		}
		if ev.PastDeadline() {
			return
		}
		seed := int(ev.Seed()%1000003)*131 + i
		c := rapid.Custom(genMatrix).Example(seed)
		msg, infra := checkMatrix(c)
		if infra != "" {
			ev.Infra("%s", infra)
			t.Fatalf("%s", infra)
		}
		if msg != "" {
			c, msg = shrinkMatrix(c, msg)
			b, _ := json.Marshal(c)
			ev.Violate("TestMatrix", msg, "matrix.json", b)
			t.Errorf("%s", msg)
			return
		}
	}
}
