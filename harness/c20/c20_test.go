package c20

import (
	"encoding/json"
	"fmt"
	"go/ast"
	"go/version"
	"os"
	"path/filepath"
	"sort"
	"strings"
	"testing"

	"golang.org/x/tools/go/analysis"
	"honnef.co/go/tools/analysis/report"
	"honnef.co/go/tools/knowledge"
	"honnef.co/go/tools/lintcmd/runner"
	"pgregory.net/rapid"
	"verif/harness/internal/ev"
	"verif/harness/internal/rn"
)

func TestMain(m *testing.M) { ev.Main(m) }

const rule = "case = a generated module (go directive M in 1.16..1.26 incl. a patch version; files without constraint and with //go:build go1.N constraints lower/equal/higher than M; -go in {module, 1.N}); a probe analyzer run through the real runner reports one diagnostic per (bound kind in {min,max}x{language,stdlib}, threshold go1.10..go1.27) on every file, and S1005/S1024/SA1019 run on real triggers; oracle = reported iff threshold is on the right side of the file's effective version per the documentation of code.LanguageVersion/StdlibVersion; non-trivial = file cell where module version, file constraint and -go differ pairwise (or a constraint is present and differs from the module); distinct by (M, N, -go)"

const (
	minT = 10
	maxT = 27
)

// probe reports, on the package clause of every file, one diagnostic per kind and threshold.
func probeAnalyzer() *analysis.Analyzer {
	return &analysis.Analyzer{
		Name:     "VP9000",
		Doc:      "verification probe for version-restricted reporting",
		Requires: []*analysis.Analyzer{rn.Find("tokenfileanalyzer")},
		Run: func(pass *analysis.Pass) (any, error) {
			for _, f := range pass.Files {
				var node ast.Node = f.Name
				for t := minT; t <= maxT; t++ {
					v := fmt.Sprintf("go1.%d", t)
					report.Report(pass, node, "minlang "+v, report.MinimumLanguageVersion(v))
					report.Report(pass, node, "maxlang "+v, report.MaximumLanguageVersion(v))
					report.Report(pass, node, "minstd "+v, report.MinimumStdlibVersion(v))
					report.Report(pass, node, "maxstd "+v, report.MaximumStdlibVersion(v))
				}
			}
			return nil, nil
		},
	}
}

type FileSpec struct {
	Name string `json:"name"`
	Tag  int    `json:"tag"` // 0 = no constraint, else //go:build go1.<Tag>
}

type Case struct {
	// Imports: the files import std packages and contain the triggers of the real
	// checks. With -go below go1.23 the standard library itself fails to
	// type-check (known finding std-fails-under-low-go-flag), so generated cases
	// only import std when -go is "module" or >= go1.23 (slices/iter.go needs range-over-func).
	Imports bool   `json:"imports"`
	// PrevGo, if set, is the -go value of an earlier run over the same files that shares the
	// cache with the judged run (a stale cache entry must not make -go ineffective).
	PrevGo string `json:"prev_go,omitempty"`
	Mod     string `json:"mod"` // go directive, e.g. "1.20" or "1.22.3"
	GoFlg string     `json:"go"`  // "module" or "go1.N"
	Files []FileSpec `json:"files"`
}

func genCase(t *rapid.T) *Case {
	c := &Case{}
	m := rapid.IntRange(16, 26).Draw(t, "mod")
	c.Mod = fmt.Sprintf("1.%d", m)
	if rapid.IntRange(0, 5).Draw(t, "patch") == 0 && m >= 21 && m < 26 {
		c.Mod += ".3"
	}
	c.GoFlg = "module"
	if rapid.IntRange(0, 2).Draw(t, "useflag") == 0 {
		c.GoFlg = fmt.Sprintf("go1.%d", rapid.IntRange(16, 26).Draw(t, "goflag"))
	}
	c.Imports = c.GoFlg == "module" || version.Compare(c.GoFlg, "go1.23") >= 0
	if !c.Imports {
		ev.Count("cases_without_std_imports_because_of_known_finding", 1)
	}
	if rapid.IntRange(0, 1).Draw(t, "hasprev") == 0 {
		lo := 23
		if !c.Imports {
			lo = 16
		}
		c.PrevGo = fmt.Sprintf("go1.%d", rapid.IntRange(lo, 26).Draw(t, "prevgo"))
		if rapid.IntRange(0, 3).Draw(t, "prevmodule") == 0 {
			c.PrevGo = "module"
		}
		if !c.Imports && c.PrevGo != "module" && version.Compare(c.PrevGo, "go1.23") < 0 {
			// fine: nothing from std is type-checked for an import-free package
		}
	}
	c.Files = append(c.Files, FileSpec{Name: "a.go"})
	n := rapid.IntRange(1, 3).Draw(t, "ntagged")
	for i := 0; i < n; i++ {
		tag := rapid.IntRange(12, 26).Draw(t, "tag")
		c.Files = append(c.Files, FileSpec{Name: fmt.Sprintf("t%d.go", i), Tag: tag})
	}
	return c
}

// realTriggers is appended to every file: S1005 (language >= go1.4), S1024
// (stdlib >= go1.8) and SA1019 on std symbols deprecated at known versions.
const realTriggers = `
func %[1]sS1005(xs []int) {
	for _ = range xs {
	}
}

func %[1]sS1024(t time.Time) time.Duration { return t.Sub(time.Now()) }

func %[1]sTitle(s string) string { return strings.Title(s) }

func %[1]sSeed() { rand.Seed(1) }
`

func (c *Case) write(dir string) error {
	if err := os.WriteFile(filepath.Join(dir, "go.mod"), []byte("module m\n\ngo "+c.Mod+"\n"), 0o644); err != nil {
		return err
	}
	for _, f := range c.Files {
		var sb strings.Builder
		if f.Tag != 0 {
			fmt.Fprintf(&sb, "//go:build go1.%d\n\n", f.Tag)
		}
		if c.Imports {
			sb.WriteString("package p\n\nimport (\n\t\"math/rand\"\n\t\"strings\"\n\t\"time\"\n)\n")
			fmt.Fprintf(&sb, realTriggers, strings.ToUpper(strings.TrimSuffix(f.Name, ".go")))
		} else {
			fmt.Fprintf(&sb, "package p\n\nvar %s = 1\n", strings.ToUpper(strings.TrimSuffix(f.Name, ".go")))
		}
		if err := os.WriteFile(filepath.Join(dir, f.Name), []byte(sb.String()), 0o644); err != nil {
			return err
		}
	}
	return nil
}

func goVer(s string) string {
	if strings.HasPrefix(s, "go") {
		return s
	}
	return "go" + s
}

// expectations per the documentation.
type expect struct {
	langExact  string   // "" if only a set is known
	langOneOf  []string // admissible effective language versions when the documentation and the toolchain differ
	std        string
	pkgVersion string
}

func (c *Case) expectFor(f FileSpec) expect {
	pkg := goVer(c.Mod)
	if c.GoFlg != "module" {
		pkg = c.GoFlg
	}
	e := expect{pkgVersion: pkg}
	if f.Tag == 0 {
		e.langExact = pkg
		e.std = pkg
		return e
	}
	tag := fmt.Sprintf("go1.%d", f.Tag)
	if f.Tag >= 21 {
		// documented and implemented by go/types alike: the file's own version
		e.langExact = tag
	} else {
		// code.LanguageVersion documents "the file's version"; go/types 1.26 yields
		// max(tag, go1.21). Only consistency and membership are asserted here.
		e.langOneOf = []string{tag, "go1.21", pkg}
	}
	// code.StdlibVersion: with a file tag, the tag when the package version is < go1.21,
	// the larger of tag and package version from go1.21 on
	if version.Compare(pkg, "go1.21") < 0 {
		e.std = tag
	} else if version.Compare(tag, pkg) > 0 {
		e.std = tag
	} else {
		e.std = pkg
	}
	return e
}

func evaluate(c *Case, dir string) (msg string, infra string) {
	if err := c.write(dir); err != nil {
		return "", err.Error()
	}
	var checks []*analysis.Analyzer
	checks = append(checks, probe)
	for _, a := range rn.Analyzers(false) {
		switch a.Name {
		case "S1005", "S1024", "SA1019":
			checks = append(checks, a)
		}
	}
	var sb strings.Builder
	known := false
	if c.PrevGo != "" && c.PrevGo != c.GoFlg && (!c.Imports || c.PrevGo == "module" || version.Compare(c.PrevGo, "go1.23") >= 0) {
		// earlier run with another -go on the same files and the same (per-process) cache; its results are not judged
		rn.Run(rn.Options{Dir: dir, GoVersion: c.PrevGo}, checks, []string{"."}, func([]runner.Result) error { return nil })
		ev.Count("cases_with_earlier_run_under_other_go_flag", 1)
	}
	err := rn.Run(rn.Options{Dir: dir, GoVersion: c.GoFlg}, checks, []string{"."}, func(res []runner.Result) error {
		type key struct{ file, kind string }
		got := map[key]map[string]bool{}
		real := map[key]bool{}
		ninit := 0
		for _, r := range res {
			if !r.Initial {
				continue
			}
			ninit++
			if r.Failed {
				if c.Imports && c.GoFlg != "module" && version.Compare(c.GoFlg, "go1.23") < 0 && ev.IsKnown("std-fails-under-low-go-flag") {
					ev.KnownFinding("std-fails-under-low-go-flag", "")
					known = true
					return nil
				}
				fmt.Fprintf(&sb, "go.mod go %s, -go %s: the package is marked failed, nothing is reported for it (errors: %v)\n", c.Mod, c.GoFlg, r.Errors)
				return nil
			}
			data, err := r.Load()
			if err != nil {
				return err
			}
			for _, d := range data.Diagnostics {
				file := filepath.Base(d.Position.Filename)
				if d.Category == "VP9000" {
					parts := strings.Fields(d.Message)
					k := key{file, parts[0]}
					if got[k] == nil {
						got[k] = map[string]bool{}
					}
					got[k][parts[1]] = true
				} else {
					sym := ""
					switch {
					case d.Category == "SA1019" && strings.Contains(d.Message, "strings.Title"):
						sym = "SA1019:strings.Title"
					case d.Category == "SA1019" && strings.Contains(d.Message, "rand.Seed"):
						sym = "SA1019:math/rand.Seed"
					case d.Category == "S1005" || d.Category == "S1024":
						sym = d.Category
					}
					if sym != "" {
						real[key{file, sym}] = true
					}
				}
			}
		}
		if ninit != 1 {
			return fmt.Errorf("expected one initial package, got %d", ninit)
		}
		for _, f := range c.Files {
			e := c.expectFor(f)
			desc := fmt.Sprintf("file %s (go.mod go %s, -go %s, //go:build go1.%d)", f.Name, c.Mod, c.GoFlg, f.Tag)
			if f.Tag == 0 {
				desc = fmt.Sprintf("file %s (go.mod go %s, -go %s, no constraint)", f.Name, c.Mod, c.GoFlg)
			}
			checkBound := func(minKind, maxKind string, exact string, oneOf []string) {
				cands := oneOf
				if exact != "" {
					cands = []string{exact}
				}
				var fits []string
				for _, v := range cands {
					ok := true
					for t := minT; t <= maxT; t++ {
						th := fmt.Sprintf("go1.%d", t)
						wantMin := version.Compare(th, v) <= 0 // threshold <= effective version
						wantMax := version.Compare(th, v) >= 0
						if got[key{f.Name, minKind}][th] != wantMin || got[key{f.Name, maxKind}][th] != wantMax {
							ok = false
						}
					}
					if ok {
						fits = append(fits, v)
					}
				}
				if len(fits) == 0 {
					fmt.Fprintf(&sb, "%s: %s reported for thresholds %s, %s for %s; expected the pattern of effective version %v\n",
						desc, minKind, ths(got[key{f.Name, minKind}]), maxKind, ths(got[key{f.Name, maxKind}]), cands)
				}
			}
			checkBound("minlang", "maxlang", e.langExact, e.langOneOf)
			checkBound("minstd", "maxstd", e.std, nil)
			if !c.Imports {
				continue
			}
			// real checks
			wantReal := map[string]bool{
				"S1005": true, // language >= go1.4 always holds here
				"S1024": true, // stdlib >= go1.8 always holds here
			}
			for _, sym := range []string{"strings.Title", "math/rand.Seed"} {
				if d, ok := knowledge.StdlibDeprecations[sym]; ok {
					wantReal["SA1019:"+sym] = version.Compare(e.std, d.DeprecatedSince) >= 0
				}
			}
			for sym, want := range wantReal {
				if real[key{f.Name, sym}] != want {
					fmt.Fprintf(&sb, "%s: %s reported=%v, expected %v (effective stdlib version %s)\n", desc, sym, real[key{f.Name, sym}], want, e.std)
				}
			}
		}
		return nil
	})
	if err != nil {
		return "", err.Error()
	}
	if known {
		return "", ""
	}
	return sb.String(), ""
}

func ths(m map[string]bool) string {
	var ks []string
	for k := range m {
		ks = append(ks, k)
	}
	sort.Slice(ks, func(i, j int) bool { return version.Compare(ks[i], ks[j]) < 0 })
	if len(ks) == 0 {
		return "{}"
	}
	return "{" + ks[0] + " .. " + ks[len(ks)-1] + fmt.Sprintf(" (%d)}", len(ks))
}

func record(c *Case) {
	for _, f := range c.Files {
		pkgDiffers := c.GoFlg != "module" && c.GoFlg != goVer(c.Mod)
		nt := f.Tag != 0 && fmt.Sprintf("go1.%d", f.Tag) != goVer(c.Mod)
		if nt && pkgDiffers {
			ev.Case(ev.Hash(c.Mod, c.GoFlg, fmt.Sprint(f.Tag)), true, "cell_all_three_differ")
		} else {
			ev.Case(ev.Hash(c.Mod, c.GoFlg, fmt.Sprint(f.Tag)), nt, "cell")
		}
		if f.Tag != 0 && f.Tag < 21 {
			ev.Count("cells_with_tag_below_go1.21_membership_only", 1)
		}
	}
}

var probe *analysis.Analyzer

func TestGrid(t *testing.T) {
	probe = probeAnalyzer() // outside the property: a failure here is a harness problem, not a verdict
	ev.Rule(rule)
	ev.Assume("for files tagged //go:build go1.N with N < 21 the language version is only required to be one of {go1.N, go1.21, package version}: the prose of code.LanguageVersion and go/types 1.26 differ there")
	ev.Check(t, "TestGrid", func(rt *rapid.T) {
		c := genCase(rt)
		b, _ := json.Marshal(c)
		ev.Begin("TestGrid", "json", b)
		dir, _ := os.MkdirTemp("", "c20-")
		defer os.RemoveAll(dir)
		msg, infra := evaluate(c, dir)
		if infra != "" {
			ev.Infra("%s (case %s)", infra, b)
			rt.Skip(infra)
		}
		record(c)
		if ev.WantSample() {
			ev.Sample(c)
		}
		if msg != "" {
			ev.Failf(rt, "TestGrid", "%s", msg)
		}
	})
}

func replayFile(t *testing.T, f, test string) {
	if probe == nil {
		probe = probeAnalyzer()
	}
	b, err := os.ReadFile(f)
	if err != nil {
		ev.Infra("read %s: %v", f, err)
		return
	}
	var c Case
	if err := json.Unmarshal(b, &c); err != nil {
		ev.Infra("decode %s: %v", f, err)
		return
	}
	dir, _ := os.MkdirTemp("", "c20r-")
	defer os.RemoveAll(dir)
	msg, infra := evaluate(&c, dir)
	if infra != "" {
		ev.Infra("%s", infra)
		return
	}
	record(&c)
	if msg != "" {
		ev.Violate(test, fmt.Sprintf("replay of %s:\n%s", f, msg), "json", b)
		t.Errorf("%s", msg)
	} else {
		t.Logf("replay %s: property holds", f)
	}
}

func TestCorpus(t *testing.T) {
	if os.Getenv("VERIF_SECONDARY") != "" {
		return
	}
	files, _ := filepath.Glob(filepath.Join(os.Getenv("VERIF_ROOT"), "corpus", "C20", "*.json"))
	sort.Strings(files)
	for _, f := range files {
		replayFile(t, f, "TestCorpus")
	}
}

func TestReplay(t *testing.T) {
	if f := ev.ReplayFile(); f != "" {
		replayFile(t, f, "TestReplay")
	}
}
