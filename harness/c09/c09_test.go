package c09

import (
	"encoding/json"
	"fmt"
	"go/ast"
	"go/parser"
	"go/token"
	"os"
	"path/filepath"
	"reflect"
	"sort"
	"strings"
	"testing"

	"honnef.co/go/tools/pattern"
	"pgregory.net/rapid"
	"verif/harness/internal/ev"
)

func TestMain(m *testing.M) { ev.Main(m) }

const rule = "case = (pattern, Go syntax tree); the pattern is derived from the tree by random abstraction (exact node / _ / name@p / bare name / Or with corrupted alternatives / Not / list forms) so most patterns match; non-trivial = the match succeeds AND in the reference evaluation at least one Or alternative or Not operand bound a name and was then discarded; one case in three is widened with 1-59 filler names that are numbered before the pattern's own names, each bound once inside a Not and discarded (classes wide_names, wide_names_ge32; such a case is non-trivial when it matches, its discards being at bit positions up to 63); distinct by hash of (explicit pattern text, source)"

// ---------------------------------------------------------------- source generator

var identPool = []string{"x", "y", "z", "f", "g", "p", "q"}

type srcGen struct{ t *rapid.T }

func (g *srcGen) pick(label string, n int) int { return rapid.IntRange(0, n-1).Draw(g.t, label) }

func (g *srcGen) ident() string { return identPool[g.pick("ident", len(identPool))] }

func (g *srcGen) expr(d int) string {
	if d <= 0 {
		switch g.pick("leaf", 4) {
		case 0:
			return []string{"0", "1", "2", "42"}[g.pick("int", 4)]
		case 1:
			return `"s"`
		default:
			return g.ident()
		}
	}
	switch g.pick("expr", 14) {
	case 0, 1:
		a := g.expr(d - 1)
		b := a
		if g.pick("dup", 3) != 0 {
			b = g.expr(d - 1)
		}
		op := []string{"+", "-", "*", "==", "<", "&&", "||"}[g.pick("op", 7)]
		return a + " " + op + " " + b
	case 2:
		return []string{"-", "!", "^"}[g.pick("uop", 3)] + g.expr(d-1)
	case 3, 4, 5:
		n := g.pick("nargs", 4)
		var args []string
		for i := 0; i < n; i++ {
			if i > 0 && g.pick("duparg", 3) == 0 {
				args = append(args, args[i-1])
			} else {
				args = append(args, g.expr(d-1))
			}
		}
		fun := g.ident()
		if g.pick("selfun", 3) == 0 {
			fun = g.ident() + "." + g.ident()
		}
		return fun + "(" + strings.Join(args, ", ") + ")"
	case 6:
		return g.expr(d-1) + "." + g.ident()
	case 7:
		return g.ident() + "[" + g.expr(d-1) + "]"
	case 8:
		return "(" + g.expr(d-1) + ")"
	case 9:
		switch g.pick("slice", 3) {
		case 0:
			return g.ident() + "[" + g.expr(d-1) + ":]"
		case 1:
			return g.ident() + "[:" + g.expr(d-1) + "]"
		default:
			return g.ident() + "[" + g.expr(d-1) + ":" + g.expr(d-1) + "]"
		}
	case 10:
		return "T{" + g.expr(d-1) + ", " + g.expr(d-1) + "}"
	case 11:
		return "*" + g.ident()
	case 12:
		return "M{" + g.expr(d-1) + ": " + g.expr(d-1) + "}"
	default:
		return g.ident()
	}
}

func (g *srcGen) block(d int) string {
	n := g.pick("nstmts", 4)
	var ss []string
	for i := 0; i < n; i++ {
		if i > 0 && g.pick("dupstmt", 4) == 0 {
			ss = append(ss, ss[i-1])
		} else {
			ss = append(ss, g.stmt(d-1))
		}
	}
	return "{\n" + strings.Join(ss, "\n") + "\n}"
}

func (g *srcGen) stmt(d int) string {
	if d <= 0 {
		switch g.pick("sleaf", 4) {
		case 0:
			return g.ident() + " = " + g.expr(1)
		case 1:
			return g.ident() + "++"
		case 2:
			return "return " + g.expr(1)
		default:
			return g.ident() + "(" + g.expr(1) + ")"
		}
	}
	switch g.pick("stmt", 12) {
	case 0:
		a := g.ident()
		e := g.expr(d)
		if g.pick("self", 4) == 0 {
			e = a
		}
		return a + " " + []string{"=", ":=", "+=", "-="}[g.pick("asgop", 4)] + " " + e
	case 1:
		return g.ident() + ", " + g.ident() + " = " + g.expr(d-1) + ", " + g.expr(d-1)
	case 2:
		return g.ident() + "(" + g.expr(d-1) + ")"
	case 3, 4:
		s := "if "
		if g.pick("ifinit", 3) == 0 {
			s += g.ident() + " := " + g.expr(d-1) + "; "
		}
		s += g.expr(d-1) + " " + g.block(d)
		switch g.pick("else", 3) {
		case 0:
			s += " else " + g.block(d)
		case 1:
			s += " else if " + g.expr(d-1) + " " + g.block(d-1)
		}
		return s
	case 5:
		n := g.pick("nres", 3)
		var rs []string
		for i := 0; i < n; i++ {
			rs = append(rs, g.expr(d-1))
		}
		return "return " + strings.Join(rs, ", ")
	case 6:
		return g.ident() + []string{"++", "--"}[g.pick("incdec", 2)]
	case 7:
		switch g.pick("for", 3) {
		case 0:
			return "for " + g.block(d)
		case 1:
			return "for " + g.expr(d-1) + " " + g.block(d)
		default:
			v := g.ident()
			return "for " + v + " := 0; " + v + " < " + g.expr(d-1) + "; " + v + "++ " + g.block(d)
		}
	case 8:
		switch g.pick("range", 3) {
		case 0:
			return "for range " + g.expr(d-1) + " " + g.block(d)
		case 1:
			return "for " + g.ident() + " := range " + g.expr(d-1) + " " + g.block(d)
		default:
			return "for " + g.ident() + ", " + g.ident() + " := range " + g.expr(d-1) + " " + g.block(d)
		}
	case 9:
		return g.block(d)
	case 10:
		return "defer " + g.ident() + "(" + g.expr(d-1) + ")"
	default:
		return "(" + g.ident() + ")(" + g.expr(d-1) + ")"
	}
}

// ---------------------------------------------------------------- pattern abstraction

var namePool = []string{"a", "b", "c", "d", "e"}

type absGen struct {
	t          *rapid.T
	maybeBound map[string]bool
	others     []any // other subtrees of the same tree, used for mismatching alternatives
	depth      int
}

func pAny() *PNode           { return &PNode{K: "any"} }
func pNil() *PNode           { return &PNode{K: "nil"} }
func pStr(s string) *PNode   { return &PNode{K: "str", S: s} }
func pIdent(s string) *PNode { return &PNode{K: "node", Type: "Ident", Args: []*PNode{pStr(s)}} }

func (g *absGen) pick(label string, n int) int { return rapid.IntRange(0, n-1).Draw(g.t, label) }

func copySet(m map[string]bool) map[string]bool {
	n := map[string]bool{}
	for k, v := range m {
		n[k] = v
	}
	return n
}

func (g *absGen) freshName() (string, bool) {
	var free []string
	for _, n := range namePool {
		if !g.maybeBound[n] {
			free = append(free, n)
		}
	}
	if len(free) == 0 {
		return "", false
	}
	return free[g.pick("fresh", len(free))], true
}

// abs produces a pattern for the value v (an ast node, a slice, a string, a token).
func (g *absGen) abs(v any) *PNode {
	g.depth++
	defer func() { g.depth-- }()
	v = unwrapR(v)
	switch x := v.(type) {
	case nil:
		return g.leafChoice(pNil(), v)
	case string:
		switch g.pick("strpat", 6) {
		case 0:
			return pAny()
		case 1:
			return &PNode{K: "or", Args: []*PNode{pStr("zzz"), pStr(x)}}
		default:
			return pStr(x)
		}
	case token.Token:
		if _, ok := tokByString[x.String()]; !ok || g.pick("tokany", 5) == 0 {
			return pAny()
		}
		if g.pick("tokor", 5) == 0 {
			return &PNode{K: "or", Args: []*PNode{pStr("%"), pStr(x.String())}}
		}
		return pStr(x.String())
	}
	rv := reflect.ValueOf(v)
	if rv.Kind() == reflect.Slice {
		return g.wrapChoice(v, func() *PNode { return g.absList(rv) })
	}
	if _, ok := v.(ast.Node); ok {
		if rv.Kind() == reflect.Pointer && rv.IsNil() {
			return pAny()
		}
		name := rv.Elem().Type().Name()
		if _, ok := patternTypes[name]; !ok {
			return pAny()
		}
		return g.wrapChoice(v, func() *PNode { return g.absNode(rv, name) })
	}
	return pAny()
}

func (g *absGen) leafChoice(exact *PNode, v any) *PNode {
	switch g.pick("leafpat", 5) {
	case 0:
		return pAny()
	case 1:
		name := namePool[g.pick("bare", len(namePool))]
		g.maybeBound[name] = true
		return &PNode{K: "bind", S: name}
	}
	return exact
}

func (g *absGen) absList(rv reflect.Value) *PNode {
	n := rv.Len()
	switch {
	case n == 1 && g.pick("single", 3) == 0:
		// documented: a single node pattern matches a list of exactly one element
		return g.abs(rv.Index(0).Interface())
	case n >= 1 && g.pick("headtail", 3) == 0:
		k := 1 + g.pick("nhead", n)
		l := &PNode{K: "list"}
		for i := 0; i < k; i++ {
			l.Args = append(l.Args, g.abs(rv.Index(i).Interface()))
		}
		switch g.pick("tailkind", 3) {
		case 0:
			l.Tail = pAny()
		case 1:
			name := namePool[g.pick("tailname", len(namePool))]
			l.Tail = &PNode{K: "bind", S: name}
			g.maybeBound[name] = true
		default:
			l.Tail = g.absList(rv.Slice(k, n))
			if l.Tail.K != "list" {
				l.Tail = pAny()
			}
		}
		return l
	}
	l := &PNode{K: "list"}
	for i := 0; i < n; i++ {
		l.Args = append(l.Args, g.abs(rv.Index(i).Interface()))
	}
	return l
}

func (g *absGen) absNode(rv reflect.Value, name string) *PNode {
	p := &PNode{K: "node", Type: name}
	sv := rv.Elem()
	for _, fname := range patternFields(name) {
		f := sv.FieldByName(fname)
		var fv any
		if !(f.Kind() == reflect.Interface && f.IsNil()) {
			fv = f.Interface()
		}
		if f.Kind() == reflect.Slice && f.Len() == 0 {
			// nil and empty lists both match the empty list pattern
			if g.pick("emptylist", 4) == 0 {
				p.Args = append(p.Args, pAny())
			} else {
				p.Args = append(p.Args, &PNode{K: "list"})
			}
			continue
		}
		p.Args = append(p.Args, g.abs(fv))
	}
	return p
}

// corrupt returns a pattern that binds like abs(v) in its early fields but
// cannot match v.
func (g *absGen) corrupt(v any) *PNode {
	v = unwrapR(v)
	if n, ok := v.(ast.Node); ok {
		rv := reflect.ValueOf(n)
		if rv.Kind() == reflect.Pointer && !rv.IsNil() {
			name := rv.Elem().Type().Name()
			if _, ok := patternTypes[name]; ok && len(patternFields(name)) >= 2 {
				p := g.absNode(rv, name)
				// bind something early, fail late
				if g.pick("forcebind", 4) != 0 {
					// the forced binding is evaluated first, so its name must
					// not occur anywhere in the pattern generated so far
					used := copySet(g.maybeBound)
					namesIn(p, used)
					var free []string
					for _, n := range namePool {
						if !used[n] {
							free = append(free, n)
						}
					}
					if len(free) > 0 {
						nm := free[g.pick("forcename", len(free))]
						if p.Args[0].K == "node" {
							p.Args[0] = &PNode{K: "bind", S: nm, Args: []*PNode{p.Args[0]}}
							g.maybeBound[nm] = true
						} else if p.Args[0].K == "any" {
							p.Args[0] = &PNode{K: "bind", S: nm}
							g.maybeBound[nm] = true
						}
					}
				}
				p.Args[len(p.Args)-1] = pIdent("zzz")
				return p
			}
		}
	}
	if len(g.others) > 0 && g.pick("other", 2) == 0 {
		return g.abs(g.others[g.pick("which", len(g.others))])
	}
	return pIdent("zzz")
}

func namesIn(p *PNode, into map[string]bool) {
	if p == nil {
		return
	}
	if p.K == "bind" {
		into[p.S] = true
	}
	for _, a := range p.Args {
		namesIn(a, into)
	}
	namesIn(p.Tail, into)
}

func (g *absGen) wrapChoice(v any, exact func() *PNode) *PNode {
	if g.depth > 12 {
		return pAny()
	}
	switch g.pick("wrap", 20) {
	case 0, 1:
		return pAny()
	case 2, 3, 4:
		if name, ok := g.freshName(); ok {
			g.maybeBound[name] = true // conservatively before descending: the sub-pattern must not mention it
			sub := exact()
			return &PNode{K: "bind", S: name, Args: []*PNode{sub}}
		}
		return exact()
	case 5, 6:
		name := namePool[g.pick("bare", len(namePool))]
		g.maybeBound[name] = true
		return &PNode{K: "bind", S: name}
	case 7, 8, 9, 10, 11, 12:
		// Or: some failing alternatives (binding names on the way), then maybe the right one
		n := 1 + g.pick("nalts", 3)
		entry := copySet(g.maybeBound)
		union := copySet(g.maybeBound)
		or := &PNode{K: "or"}
		good := g.pick("goodpos", n+1) // n => no good alternative
		for i := 0; i < n; i++ {
			g.maybeBound = copySet(entry)
			if i == good {
				or.Args = append(or.Args, exact())
			} else {
				or.Args = append(or.Args, g.corrupt(v))
			}
			for k := range g.maybeBound {
				union[k] = true
			}
		}
		g.maybeBound = union
		return or
	case 13, 14:
		// Not of something that fails (so Not succeeds), possibly binding on the way
		entry := copySet(g.maybeBound)
		sub := g.corrupt(v)
		g.maybeBound = entry
		_ = sub
		if g.pick("notdouble", 4) == 0 {
			// Not(Not(exact)) succeeds as well and binds nothing
			inner := exact()
			g.maybeBound = entry
			return &PNode{K: "not", Args: []*PNode{{K: "not", Args: []*PNode{inner}}}}
		}
		return &PNode{K: "not", Args: []*PNode{sub}}
	}
	return exact()
}

// ---------------------------------------------------------------- case

type Case struct {
	Kind    string `json:"kind"` // expr | stmt
	Src     string `json:"src"`
	Pattern *PNode `json:"pattern"`
	Short   string `json:"pattern_shorthand"`
	Expl    string `json:"pattern_explicit"`
	Wide    int    `json:"filler_names,omitempty"` // number of filler names numbered before the pattern's own
}

func parseTarget(kind, src string) (*token.FileSet, ast.Node, error) {
	fset := token.NewFileSet()
	file := "package p\nfunc _() {\n" + src + "\n}\n"
	if kind == "expr" {
		file = "package p\nvar _ = " + src + "\n"
	}
	f, err := parser.ParseFile(fset, "p.go", file, parser.SkipObjectResolution)
	if err != nil {
		return nil, nil, err
	}
	if kind == "expr" {
		return fset, f.Decls[0].(*ast.GenDecl).Specs[0].(*ast.ValueSpec).Values[0], nil
	}
	body := f.Decls[0].(*ast.FuncDecl).Body
	if len(body.List) == 0 {
		return nil, nil, fmt.Errorf("empty body")
	}
	return fset, body.List[0], nil
}

func subtrees(n ast.Node) []any {
	var out []any
	ast.Inspect(n, func(c ast.Node) bool {
		if c == nil {
			return false
		}
		switch c.(type) {
		case ast.Expr, ast.Stmt:
			out = append(out, c)
		}
		return len(out) < 40
	})
	return out
}

type outcome struct {
	ok    bool
	state string
	panic string
}

func runImpl(fset *token.FileSet, text string, target ast.Node) (o outcome) {
	defer func() {
		if r := recover(); r != nil {
			o.panic = fmt.Sprint(r)
		}
	}()
	p := &pattern.Parser{AllowTypeInfo: false}
	pat, err := p.Parse(text)
	if err != nil {
		o.panic = "parse error: " + err.Error()
		return
	}
	m, ok := pattern.Match(pat, target)
	o.ok = ok
	if ok {
		o.state = renderState(fset, m.State)
	}
	return
}

// evaluate returns "" when the property holds for the case.
func evaluate(c *Case) (msg string, nontrivial bool, classes []string, skip string) {
	fset, target, err := parseTarget(c.Kind, c.Src)
	if err != nil {
		return "", false, nil, "unparsable source: " + err.Error()
	}
	md := &model{}
	_, env, mok := md.match(c.Pattern, target, Env{})
	if md.illFormed != "" {
		return "", false, nil, "ill-formed pattern: " + md.illFormed
	}
	want := outcome{ok: mok}
	if mok {
		want.state = renderState(fset, env)
	}
	short := runImpl(fset, c.Short, target)
	expl := runImpl(fset, c.Expl, target)
	describe := func(o outcome) string {
		if o.panic != "" {
			return "PANIC/ERROR: " + o.panic
		}
		return fmt.Sprintf("ok=%v\n%s", o.ok, o.state)
	}
	if short != want || expl != want {
		msg = fmt.Sprintf("pattern (shorthand): %s\npattern (explicit):  %s\nsource (%s): %s\n--- reference model: %s--- implementation, shorthand spelling: %s--- implementation, explicit spelling: %s",
			c.Short, c.Expl, c.Kind, c.Src, describe(want)+"\n", describe(short)+"\n", describe(expl)+"\n")
	}
	if mok {
		classes = append(classes, "match_ok")
	} else {
		classes = append(classes, "match_fail")
	}
	if md.rolledBack > 0 {
		classes = append(classes, "has_discarded_bindings")
	}
	if md.recallEq > 0 {
		classes = append(classes, "recall_equal_subtree")
	}
	if md.recallNe > 0 {
		classes = append(classes, "recall_different_subtree")
	}
	if mok && len(env) > 0 {
		classes = append(classes, "ok_with_bindings")
	}
	if strings.Contains(c.Expl, "(Not ") {
		classes = append(classes, "has_not")
	}
	if strings.Contains(c.Expl, "(Or ") {
		classes = append(classes, "has_or")
	}
	if c.Short != c.Expl {
		classes = append(classes, "spellings_differ")
	}
	if c.Wide > 0 {
		classes = append(classes, "wide_names")
		if c.Wide >= 32 {
			classes = append(classes, "wide_names_ge32")
		}
	}
	return msg, mok && md.rolledBack > 0, classes, ""
}

func genCase(t *rapid.T) *Case {
	sg := &srcGen{t: t}
	c := &Case{}
	if rapid.IntRange(0, 2).Draw(t, "kind") == 0 {
		c.Kind = "expr"
		c.Src = sg.expr(rapid.IntRange(1, 3).Draw(t, "depth"))
	} else {
		c.Kind = "stmt"
		c.Src = sg.stmt(rapid.IntRange(1, 3).Draw(t, "depth"))
	}
	_, target, err := parseTarget(c.Kind, c.Src)
	if err != nil {
		ev.Count("gen_invalid_source", 1)
		t.Skip("generator produced unparsable source")
	}
	ag := &absGen{t: t, maybeBound: map[string]bool{}, others: subtrees(target)}
	c.Pattern = ag.abs(target)
	if c.Pattern.K != "node" && c.Pattern.K != "or" && c.Pattern.K != "not" {
		// the root of a pattern text must be a parenthesised node
		c.Pattern = &PNode{K: "or", Args: []*PNode{c.Pattern}}
	}
	// wide patterns: the statement quantifies over up to 64 names, and the
	// matcher keeps one bit per name. One case in three gets k filler names
	// that are parsed (and so numbered) before the names of the pattern
	// proper: (Or (Not (Or (Not f00) .. (Not f<k-2>) f<k-1>)) P). Every filler
	// is bound once and discarded again, so the whole match behaves like P
	// while P's own names sit at bit positions k..k+4.
	if rapid.IntRange(0, 2).Draw(t, "wide") == 0 {
		k := rapid.IntRange(1, 64-len(namePool)).Draw(t, "fillers")
		var alts []*PNode
		for i := 0; i < k; i++ {
			f := &PNode{K: "bind", S: fmt.Sprintf("f%02d", i)}
			if i < k-1 {
				f = &PNode{K: "not", Args: []*PNode{f}}
			}
			alts = append(alts, f)
		}
		prefix := &PNode{K: "not", Args: []*PNode{{K: "or", Args: alts}}}
		c.Pattern = &PNode{K: "or", Args: []*PNode{prefix, c.Pattern}}
		c.Wide = k
	}
	c.Short = c.Pattern.render(false)
	c.Expl = c.Pattern.render(true)
	return c
}

func TestBindings(t *testing.T) {
	ev.Rule(rule)
	ev.Assume("reference model (harness/c09/model.go) is the specification of the fragment: immutable environments; base relation per pattern/doc.go")
	ev.Assume("bindings of plain strings/tokens are never recalled by generated patterns (the statement speaks of subtrees)")
	ev.Check(t, "TestBindings", func(rt *rapid.T) {
		c := genCase(rt)
		b, _ := json.MarshalIndent(c, "", " ")
		ev.Begin("TestBindings", "json", b)
		msg, nontrivial, classes, skip := evaluate(c)
		if skip != "" {
			ev.Count("gen_skipped", 1)
			rt.Skip(skip)
		}
		ev.Case(ev.Hash(c.Expl, c.Src), nontrivial, classes...)
		if nontrivial && ev.WantSample() {
			ev.Sample(map[string]string{"pattern": c.Short, "source": c.Src})
		}
		if msg != "" {
			ev.Failf(rt, "TestBindings", "%s", msg)
		}
	})
}

// TestCorpus re-evaluates saved cases (confirmed findings and regressions) on every run.
func TestCorpus(t *testing.T) {
	if os.Getenv("VERIF_SECONDARY") != "" {
		return
	}
	files, _ := filepath.Glob(filepath.Join(os.Getenv("VERIF_ROOT"), "corpus", "C09", "*.json"))
	sort.Strings(files)
	for _, f := range files {
		replayFile(t, f, "TestCorpus")
	}
}

func replayFile(t *testing.T, f, test string) {
	b, err := os.ReadFile(f)
	if err != nil {
		ev.Infra("cannot read %s: %v", f, err)
		return
	}
	var c Case
	if err := json.Unmarshal(b, &c); err != nil {
		ev.Infra("cannot decode %s: %v", f, err)
		return
	}
	if c.Pattern != nil {
		c.Short, c.Expl = c.Pattern.render(false), c.Pattern.render(true)
	}
	msg, nontrivial, classes, skip := evaluate(&c)
	if skip != "" {
		ev.Infra("corpus case %s skipped: %s", f, skip)
		return
	}
	ev.Case(ev.Hash(c.Expl, c.Src), nontrivial, append(classes, "corpus")...)
	if msg != "" {
		ev.Violate(test, fmt.Sprintf("replay of %s:\n%s", f, msg), "json", b)
		t.Errorf("%s", msg)
	} else {
		t.Logf("replay %s: property holds", f)
	}
}

func TestReplay(t *testing.T) {
	f := ev.ReplayFile()
	if f == "" {
		t.Skip("no VERIF_REPLAY")
	}
	replayFile(t, f, "TestReplay")
}
