package c09

// Reference model of the pattern matcher for the fragment the generator
// produces. Environments are immutable (copied on bind), so the atomicity of
// Or alternatives and Not operands holds by construction here; the base
// relation follows pattern/doc.go ("a single node can match a list of exactly
// one element", automatic unnesting of ParenExpr/ExprStmt/DeclStmt/LabeledStmt,
// nil vs. empty list).

import (
	"bytes"
	"fmt"
	"go/ast"
	"go/printer"
	"go/token"
	"reflect"
	"sort"
	"strings"

	"honnef.co/go/tools/pattern"
)

// PNode is the harness' own pattern syntax tree; the implementation only ever
// sees its rendering as text.
type PNode struct {
	K    string   `json:"k"`              // node | any | nil | str | bind | or | not | list
	Type string   `json:"t,omitempty"`    // node: type name
	S    string   `json:"s,omitempty"`    // str: value ; bind: name
	Args []*PNode `json:"a,omitempty"`    // node: fields ; or: alternatives ; list: elements ; bind/not: [sub]
	Tail *PNode   `json:"tail,omitempty"` // list: explicit tail (nil = proper list)
}

func (p *PNode) render(explicit bool) string {
	switch p.K {
	case "any":
		if explicit {
			return "(Any)"
		}
		return "_"
	case "nil":
		return "nil"
	case "str":
		return fmt.Sprintf("%q", p.S)
	case "node":
		var sb strings.Builder
		sb.WriteString("(" + p.Type)
		for _, a := range p.Args {
			sb.WriteString(" " + a.render(explicit))
		}
		sb.WriteString(")")
		return sb.String()
	case "or":
		var sb strings.Builder
		sb.WriteString("(Or")
		for _, a := range p.Args {
			sb.WriteString(" " + a.render(explicit))
		}
		sb.WriteString(")")
		return sb.String()
	case "not":
		return "(Not " + p.Args[0].render(explicit) + ")"
	case "bind":
		if len(p.Args) == 0 {
			if explicit {
				return fmt.Sprintf("(Binding %q nil)", p.S)
			}
			return p.S
		}
		sub := p.Args[0]
		// the shorthand name@p requires p to be written as a parenthesised node
		if !explicit && (sub.K == "node" || sub.K == "or" || sub.K == "not") {
			return p.S + "@" + sub.render(explicit)
		}
		return fmt.Sprintf("(Binding %q %s)", p.S, sub.render(explicit))
	case "list":
		if explicit {
			// (List h (List h2 ... tail))
			tail := "(List nil nil)"
			if p.Tail != nil {
				tail = p.Tail.render(explicit)
			}
			for i := len(p.Args) - 1; i >= 0; i-- {
				tail = "(List " + p.Args[i].render(explicit) + " " + tail + ")"
			}
			return tail
		}
		for _, a := range p.Args {
			if a.K == "list" && p.Tail != nil {
				// h:t cannot be written with a bracketed list as head
				return p.render(true)
			}
		}
		if p.Tail == nil {
			parts := make([]string, len(p.Args))
			for i, a := range p.Args {
				parts[i] = a.render(explicit)
			}
			return "[" + strings.Join(parts, " ") + "]"
		}
		var sb strings.Builder
		for _, a := range p.Args {
			sb.WriteString(a.render(explicit) + ":")
		}
		sb.WriteString(p.Tail.render(explicit))
		return sb.String()
	}
	panic("bad pnode kind " + p.K)
}

type Env map[string]any

func (e Env) with(k string, v any) Env {
	n := make(Env, len(e)+1)
	for a, b := range e {
		n[a] = b
	}
	n[k] = v
	return n
}

type model struct {
	rolledBack int // number of Or alternatives / Not operands that bound a name and then were discarded
	binds      int // number of bind operations executed (on any path)
	recallEq   int // recalls of a bound name against an equal subtree
	recallNe   int // recalls against a different subtree
	illFormed  string
}

// field names of the pattern node types, taken from the language definition
func patternFields(typ string) []string {
	t, ok := patternTypes[typ]
	if !ok {
		panic("unknown pattern type " + typ)
	}
	var out []string
	for i := 0; i < t.NumField(); i++ {
		if t.Field(i).IsExported() {
			out = append(out, t.Field(i).Name)
		}
	}
	return out
}

var patternTypes = map[string]reflect.Type{}

func init() {
	for _, v := range []any{
		pattern.Ident{}, pattern.BasicLit{}, pattern.BinaryExpr{}, pattern.UnaryExpr{}, pattern.CallExpr{},
		pattern.SelectorExpr{}, pattern.IndexExpr{}, pattern.StarExpr{}, pattern.SliceExpr{}, pattern.CompositeLit{},
		pattern.KeyValueExpr{}, pattern.AssignStmt{}, pattern.IfStmt{}, pattern.ReturnStmt{}, pattern.IncDecStmt{},
		pattern.ForStmt{}, pattern.RangeStmt{}, pattern.ArrayType{}, pattern.MapType{}, pattern.DeferStmt{},
		pattern.GoStmt{}, pattern.SendStmt{}, pattern.TypeAssertExpr{}, pattern.FuncLit{}, pattern.FuncType{},
	} {
		t := reflect.TypeOf(v)
		patternTypes[t.Name()] = t
	}
}

func unwrapR(r any) any {
	for {
		switch x := r.(type) {
		case *ast.ParenExpr:
			r = x.X
		case *ast.ExprStmt:
			r = x.X
		case *ast.DeclStmt:
			r = x.Decl
		case *ast.LabeledStmt:
			r = x.Stmt
		case *ast.BlockStmt:
			if x == nil {
				return nil
			}
			return x.List
		case *ast.FieldList:
			if x == nil {
				return nil
			}
			return x.List
		case *ast.BasicLit:
			if x == nil {
				return nil
			}
			return r
		default:
			return r
		}
	}
}

func isNilValue(v any) bool {
	if v == nil {
		return true
	}
	rv := reflect.ValueOf(v)
	switch rv.Kind() {
	case reflect.Chan, reflect.Func, reflect.Interface, reflect.Map, reflect.Pointer, reflect.Slice:
		return rv.IsNil()
	}
	return false
}

var tokByString = func() map[string]token.Token {
	m := map[string]token.Token{}
	for t := token.Token(0); t < token.TILDE+1; t++ {
		s := t.String()
		if t.IsOperator() {
			m[s] = t
		}
	}
	for _, t := range []token.Token{token.INT, token.FLOAT, token.IMAG, token.CHAR, token.STRING, token.IMPORT, token.VAR, token.TYPE, token.CONST, token.BREAK, token.CONTINUE, token.GOTO, token.FALLTHROUGH} {
		m[strings.ToUpper(t.String())] = t
	}
	return m
}()

func (md *model) match(p *PNode, r any, env Env) (any, Env, bool) {
	r = unwrapR(r)
	switch p.K {
	case "any":
		return r, env, true
	case "nil":
		return nil, env, isNilValue(r)
	case "str":
		switch o := r.(type) {
		case token.Token:
			t, ok := tokByString[p.S]
			return o, env, ok && t == o
		case string:
			return o, env, o == p.S
		}
		return nil, env, false
	case "bind":
		if len(p.Args) == 0 {
			if v, ok := env[p.S]; ok {
				eq := structEq(v, r)
				if eq {
					md.recallEq++
				} else {
					md.recallNe++
				}
				return r, env, eq
			}
			md.binds++
			return r, env.with(p.S, r), true
		}
		if _, ok := env[p.S]; ok {
			md.illFormed = "name@pattern reached while " + p.S + " is bound"
			return nil, env, false
		}
		ret, env2, ok := md.match(p.Args[0], r, env)
		if !ok {
			return nil, env, false
		}
		if _, dup := env2[p.S]; dup {
			md.illFormed = "name@pattern binds " + p.S + " inside itself"
			return nil, env, false
		}
		md.binds++
		return ret, env2.with(p.S, ret), true
	case "or":
		for _, alt := range p.Args {
			before := md.binds
			ret, env2, ok := md.match(alt, r, env)
			if ok {
				return ret, env2, true
			}
			if md.binds > before {
				md.rolledBack++
			}
		}
		return nil, env, false
	case "not":
		before := md.binds
		_, _, ok := md.match(p.Args[0], r, env)
		if md.binds > before {
			md.rolledBack++
		}
		if ok {
			return nil, env, false
		}
		return r, env, true
	case "list":
		rv := reflect.ValueOf(r)
		if r == nil || rv.Kind() != reflect.Slice {
			return nil, env, false
		}
		cur := env
		for i, el := range p.Args {
			if rv.Len() <= i {
				return nil, env, false
			}
			_, e2, ok := md.match(el, rv.Index(i).Interface(), cur)
			if !ok {
				return nil, env, false
			}
			cur = e2
		}
		rest := rv.Slice(len(p.Args), rv.Len())
		if p.Tail == nil {
			if rest.Len() != 0 {
				return nil, env, false
			}
			return r, cur, true
		}
		_, e2, ok := md.match(p.Tail, rest.Interface(), cur)
		if !ok {
			return nil, env, false
		}
		return r, e2, true
	case "node":
		rv := reflect.ValueOf(r)
		if r == nil {
			return nil, env, false
		}
		if rv.Kind() == reflect.Slice {
			if rv.Len() != 1 {
				return nil, env, false
			}
			return md.match(p, rv.Index(0).Interface(), env)
		}
		n, ok := r.(ast.Node)
		if !ok {
			return nil, env, false
		}
		if rv.Kind() != reflect.Pointer || rv.IsNil() {
			return nil, env, false
		}
		sv := rv.Elem()
		if sv.Type().Name() != p.Type {
			return nil, env, false
		}
		cur := env
		for i, fname := range patternFields(p.Type) {
			f := sv.FieldByName(fname)
			_, e2, ok := md.match(p.Args[i], f.Interface(), cur)
			if !ok {
				return nil, env, false
			}
			cur = e2
		}
		return n, cur, true
	}
	panic("bad kind")
}

// structEq: structural equality of two stored/candidate values, ignoring
// positions, resolved objects, comments and the automatically unnested
// wrappers; a one-element list equals its element.
func structEq(a, b any) bool {
	a, b = unwrapR(a), unwrapR(b)
	if a == nil || b == nil {
		// doc: nil does not equal an empty list
		return a == nil && b == nil
	}
	av, bv := reflect.ValueOf(a), reflect.ValueOf(b)
	if av.Kind() == reflect.Slice || bv.Kind() == reflect.Slice {
		// lists are typed: a list of expressions never equals a list of
		// statements, and a lone node only stands for a one-element list of
		// its own category
		if av.Kind() == reflect.Slice && bv.Kind() == reflect.Slice && av.Type() != bv.Type() {
			return false
		}
		if av.Kind() == reflect.Slice && bv.Kind() != reflect.Slice && !bv.Type().AssignableTo(av.Type().Elem()) {
			return false
		}
		if bv.Kind() == reflect.Slice && av.Kind() != reflect.Slice && !av.Type().AssignableTo(bv.Type().Elem()) {
			return false
		}
		as, bs := toSlice(av), toSlice(bv)
		if as == nil || bs == nil || len(as) != len(bs) {
			return false
		}
		for i := range as {
			if !structEq(as[i], bs[i]) {
				return false
			}
		}
		return true
	}
	if av.Type() != bv.Type() {
		return false
	}
	switch av.Kind() {
	case reflect.String:
		return av.String() == bv.String()
	case reflect.Int:
		return av.Int() == bv.Int()
	case reflect.Bool:
		return av.Bool() == bv.Bool()
	case reflect.Pointer:
		if av.IsNil() || bv.IsNil() {
			return av.IsNil() && bv.IsNil()
		}
		as, bs := av.Elem(), bv.Elem()
		for i := 0; i < as.NumField(); i++ {
			ft := as.Type().Field(i).Type
			if ft == reflect.TypeFor[token.Pos]() || ft == reflect.TypeFor[*ast.Object]() || ft == reflect.TypeFor[*ast.CommentGroup]() {
				continue
			}
			if !fieldEq(as.Field(i), bs.Field(i)) {
				return false
			}
		}
		return true
	}
	return false
}

func fieldEq(a, b reflect.Value) bool {
	switch a.Kind() {
	case reflect.Slice:
		if a.Len() != b.Len() {
			return false
		}
		for i := 0; i < a.Len(); i++ {
			if !structEq(a.Index(i).Interface(), b.Index(i).Interface()) {
				return false
			}
		}
		return true
	case reflect.String:
		return a.String() == b.String()
	case reflect.Int:
		return a.Int() == b.Int()
	case reflect.Bool:
		return a.Bool() == b.Bool()
	case reflect.Pointer, reflect.Interface:
		var ai, bi any
		if !(a.Kind() == reflect.Interface && a.IsNil()) {
			ai = a.Interface()
		}
		if !(b.Kind() == reflect.Interface && b.IsNil()) {
			bi = b.Interface()
		}
		if isNilValue(ai) || isNilValue(bi) {
			return isNilValue(ai) && isNilValue(bi)
		}
		return structEq(ai, bi)
	}
	return false
}

func toSlice(v reflect.Value) []any {
	if v.Kind() == reflect.Slice {
		out := make([]any, v.Len())
		for i := range out {
			out[i] = v.Index(i).Interface()
		}
		return out
	}
	switch v.Interface().(type) {
	case ast.Expr, ast.Stmt, *ast.Field:
		return []any{v.Interface()}
	}
	return nil
}

// renderValue renders a bound value with its position so that the same
// syntax at different places is told apart (both matchers run on one tree).
func renderValue(fset *token.FileSet, v any) string {
	switch x := v.(type) {
	case nil:
		return "<nil>"
	case string:
		return fmt.Sprintf("string:%q", x)
	case token.Token:
		return "token:" + x.String()
	case ast.Node:
		rv := reflect.ValueOf(x)
		if rv.Kind() == reflect.Pointer && rv.IsNil() {
			return fmt.Sprintf("%T(nil)", x)
		}
		var buf bytes.Buffer
		printer.Fprint(&buf, fset, x)
		return fmt.Sprintf("%T@%d:%s", x, fset.Position(x.Pos()).Offset, buf.String())
	}
	rv := reflect.ValueOf(v)
	if rv.Kind() == reflect.Slice {
		parts := make([]string, rv.Len())
		for i := range parts {
			parts[i] = renderValue(fset, rv.Index(i).Interface())
		}
		return fmt.Sprintf("%T[%s]", v, strings.Join(parts, "; "))
	}
	return fmt.Sprintf("%T:%v", v, v)
}

func renderState(fset *token.FileSet, st map[string]any) string {
	keys := make([]string, 0, len(st))
	for k := range st {
		keys = append(keys, k)
	}
	sort.Strings(keys)
	var sb strings.Builder
	for _, k := range keys {
		fmt.Fprintf(&sb, "%s = %s\n", k, renderValue(fset, st[k]))
	}
	return sb.String()
}
