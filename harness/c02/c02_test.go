package c02

import (
	"encoding/json"
	"fmt"
	"go/ast"
	"go/importer"
	"go/parser"
	"go/token"
	"go/types"
	"os"
	"path/filepath"
	"sort"
	"strings"
	"sync"
	"testing"

	"golang.org/x/tools/go/packages"
	"honnef.co/go/tools/go/ir"
	"honnef.co/go/tools/go/ir/irutil"
	"pgregory.net/rapid"
	"verif/harness/internal/cfggen"
	"verif/harness/internal/ev"
	"verif/harness/internal/gogen"
	"verif/harness/internal/irbuild"
	"verif/harness/internal/irvalid"
)

func TestMain(m *testing.M) { ev.Main(m) }

const rule = "case = (package, builder mode) with mode in {NaiveForm}x{GlobalDebug}x{InstantiateGenerics}x{BuildSerially}; packages are generated (structured nests, goto-drawn irreducible digraphs with partially escaping locals, recover blocks, closures, range-over-func) plus fixed corpora (harness corpus, go/ir testdata, check testdata, repository packages; std in thorough); oracle = independent validator harness/internal/irvalid (clauses a-g of DESIGN.md C02); non-trivial = function with >=2 blocks and (>=1 phi or an alloc that survived lifting next to a lifted one); distinct by (source hash, function, mode)"

var allModes = func() []ir.BuilderMode {
	var ms []ir.BuilderMode
	for i := 0; i < 16; i++ {
		var m ir.BuilderMode
		if i&1 != 0 {
			m |= ir.NaiveForm
		}
		if i&2 != 0 {
			m |= ir.GlobalDebug
		}
		if i&4 != 0 {
			m |= ir.InstantiateGenerics
		}
		if i&8 != 0 {
			m |= ir.BuildSerially
		}
		ms = append(ms, m)
	}
	return ms
}()

var (
	statsMu sync.Mutex
	stats   irvalid.Stats
)

func flushStats() {
	statsMu.Lock()
	defer statsMu.Unlock()
	ev.Extra("validator", map[string]any{
		"functions": stats.Functions, "blocks": stats.Blocks, "instructions": stats.Instrs, "phis": stats.Phis,
		"uses_checked_for_dominance": stats.UsesChecked, "recover_block_relaxations": stats.RecoverRelaxed,
		"unreachable_blocks_seen": stats.UnreachableBlks, "typing_rule_applications": stats.TypeRules,
		"functions_with_free_type_params_structural_only": stats.TypeSkippedGen,
		"if_with_same_targets_observed": stats.IfSameTarget, "stale_locals_entries_observed": stats.StaleLocals, "referrer_multiplicity_differs_observed": stats.ReferrerMultiplicityDiffers, "constantswitch_condition_assignable_not_identical_observed": stats.SwitchCondAssignable, "duplicate_edges_observed": stats.DuplicateEdges,
	})
	kinds := map[string]any{}
	for k, v := range stats.InstrKinds {
		kinds[k] = v
	}
	ev.Extra("instruction_kinds", kinds)
}

// validate checks every function reachable from pkg's members and returns a report.
func validate(prog *ir.Program, pkgs []*ir.Package, srcHash string, mode ir.BuilderMode) string {
	var sb strings.Builder
	seen := map[*ir.Function]bool{}
	var visit func(fn *ir.Function)
	visit = func(fn *ir.Function) {
		if fn == nil || seen[fn] {
			return
		}
		seen[fn] = true
		statsMu.Lock()
		before := stats.Phis
		probs := irvalid.Check(fn, &stats)
		phis := stats.Phis - before
		statsMu.Unlock()
		if len(fn.Blocks) > 0 {
			allocs := 0
			for _, b := range fn.Blocks {
				for _, i := range b.Instrs {
					if _, ok := i.(*ir.Alloc); ok {
						allocs++
					}
				}
			}
			nt := len(fn.Blocks) >= 2 && (phis > 0 || (allocs > 0 && mode&ir.NaiveForm == 0))
			var classes []string
			if phis > 0 {
				classes = append(classes, "fn_with_phi")
			}
			if fn.Recover != nil {
				classes = append(classes, "fn_with_recover")
			}
			if mode&ir.NaiveForm != 0 {
				classes = append(classes, "naive_form")
			}
			ev.Case(ev.Hash(srcHash, fn.String(), fmt.Sprint(uint(mode))), nt, classes...)
		}
		for _, p := range probs {
			sb.WriteString(p.String() + "\n")
		}
		for _, a := range fn.AnonFuncs {
			visit(a)
		}
		// callees that are synthetic (wrappers, instances, bound methods) belong to the build as well
		for _, b := range fn.Blocks {
			for _, instr := range b.Instrs {
				for _, op := range instr.Operands(nil) {
					if op != nil && *op != nil {
						if f, ok := (*op).(*ir.Function); ok && (f.Synthetic != "" || f.Parent() != nil) {
							visit(f)
						}
					}
				}
			}
		}
	}
	for _, pkg := range pkgs {
		if pkg == nil {
			continue
		}
		for _, fn := range irbuild.Functions(pkg) {
			visit(fn)
		}
		if init := pkg.Func("init"); init != nil {
			visit(init)
		}
	}
	return sb.String()
}

type Case struct {
	Src  string `json:"src"`
	Mode uint   `json:"mode"`
}

func evalSource(src string, mode ir.BuilderMode) (msg string, invalid bool) {
	defer func() {
		if r := recover(); r != nil {
			msg = fmt.Sprintf("builder panicked: %v", r)
		}
	}()
	b, pkg, err := irbuild.BuildOne(src, "go1.26", mode)
	if err != nil {
		return "", true
	}
	return validate(b.Prog, []*ir.Package{pkg}, ev.Hash(src), mode), false
}

func TestGenerated(t *testing.T) {
	ev.Rule(rule)
	ev.Assume("typing clauses use types.Identical and are applied only to functions without free type parameters; uses in recover-rooted blocks may refer to entry-block values (counted)")
	defer flushStats()
	cfg := cfggen.Default()
	ev.Check(t, "TestGenerated", func(rt *rapid.T) {
		// two generators: goto graphs / recover blocks (cfggen) and the rich typed executable subset (gogen)
		var src string
		var feats []string
		if rapid.IntRange(0, 2).Draw(rt, "generator") == 0 {
			gp := gogen.Generate(rt, gogen.DefaultConfig())
			src, feats = gp.Src, gp.Features
			ev.Count("generated_by_gogen", 1)
		} else {
			p := cfggen.Generate(rt, cfg)
			src, feats = p.Src, keys(p.Features)
			ev.Count("generated_by_cfggen", 1)
		}
		// all 16 modes for every program: the mode is part of the case
		for _, mode := range allModes {
			c := Case{Src: src, Mode: uint(mode)}
			b, _ := json.Marshal(c)
			ev.Begin("TestGenerated", "json", b)
			msg, invalid := evalSource(src, mode)
			if invalid {
				ev.Count("gen_invalid", 1)
				return
			}
			if msg != "" {
				ev.Failf(rt, "TestGenerated", "ill-formed IR in builder mode %q\n%s\nsource:\n%s", mode.String(), msg, src)
			}
		}
		if ev.WantSample() {
			ev.Sample(map[string]any{"kind": "generated", "features": feats, "bytes": len(src)})
		}
	})
}

func keys(m map[string]bool) []string {
	var ks []string
	for k := range m {
		ks = append(ks, k)
	}
	sort.Strings(ks)
	return ks
}

// ---------------------------------------------------------------- corpora

var srcImporter = sync.OnceValue(func() types.Importer {
	return importer.ForCompiler(token.NewFileSet(), "source", nil)
})

// checkDir type-checks the non-test Go files of dir as one package with the source importer and validates it in every mode.
func checkDir(t *testing.T, dir string, modes []ir.BuilderMode) {
	ents, err := os.ReadDir(dir)
	if err != nil {
		return
	}
	byPkg := map[string][]string{}
	fsetProbe := token.NewFileSet()
	for _, e := range ents {
		if e.IsDir() || !strings.HasSuffix(e.Name(), ".go") || strings.HasSuffix(e.Name(), "_test.go") {
			continue
		}
		f, err := parser.ParseFile(fsetProbe, filepath.Join(dir, e.Name()), nil, parser.PackageClauseOnly)
		if err != nil {
			continue
		}
		byPkg[f.Name.Name] = append(byPkg[f.Name.Name], filepath.Join(dir, e.Name()))
	}
	for _, files := range byPkg {
		sort.Strings(files)
		for _, mode := range modes {
			func() {
				defer func() {
					if r := recover(); r != nil {
						ev.Violate("TestCorpora", fmt.Sprintf("builder panicked on %s in mode %q: %v", dir, mode.String(), r), "txt", []byte(dir+"\n"+mode.String()))
						t.Errorf("builder panicked on %s: %v", dir, r)
					}
				}()
				fset := token.NewFileSet()
				var asts []*ast.File
				for _, fn := range files {
					f, err := parser.ParseFile(fset, fn, nil, parser.ParseComments|parser.SkipObjectResolution)
					if err != nil {
						ev.Count("corpus_dir_unparsable", 1)
						return
					}
					asts = append(asts, f)
				}
				info := irbuild.NewInfo()
				conf := types.Config{Importer: srcImporter(), GoVersion: "go1.26"}
				tp, err := conf.Check(asts[0].Name.Name, fset, asts, info)
				if err != nil {
					ev.Count("corpus_dir_not_typecheckable", 1)
					return
				}
				prog := ir.NewProgram(fset, mode)
				for _, imp := range tp.Imports() {
					createAll(prog, imp, map[*types.Package]bool{})
				}
				pkg := prog.CreatePackage(tp, asts, info, true)
				pkg.Build()
				ev.Count("corpus_packages_built", 1)
				if msg := validate(prog, []*ir.Package{pkg}, dir, mode); msg != "" {
					ev.Violate("TestCorpora", fmt.Sprintf("ill-formed IR for %s in builder mode %q\n%s", dir, mode.String(), msg), "dir.txt", []byte(dir+"\n"+fmt.Sprint(uint(mode))))
					t.Errorf("%s mode %s:\n%s", dir, mode.String(), msg)
				}
			}()
		}
	}
}

func createAll(prog *ir.Program, p *types.Package, seen map[*types.Package]bool) {
	if seen[p] {
		return
	}
	seen[p] = true
	for _, imp := range p.Imports() {
		createAll(prog, imp, seen)
	}
	if prog.Package(p) == nil {
		prog.CreatePackage(p, nil, nil, true)
	}
}

func testdataDirs(quick bool) []string {
	var dirs []string
	add := func(glob string) {
		m, _ := filepath.Glob(glob)
		dirs = append(dirs, m...)
	}
	root := "/repo"
	if quick {
		add(root + "/simple/s100[0-9]/testdata/go1.0/*")
		add(root + "/staticcheck/sa400[0-9]/testdata/go1.0/*")
		add(root + "/staticcheck/sa402[0-9]/testdata/go1.0/*")
		add(root + "/quickfix/qf100[0-9]/testdata/go1.0/*")
		add(root + "/unused/testdata/src/example.com/[a-f]*")
		add(root + "/analysis/facts/nilness/testdata/src/example.com/*")
	} else {
		add(root + "/*/*/testdata/go1.*/*")
		add(root + "/unused/testdata/src/example.com/*")
		add(root + "/analysis/facts/*/testdata/src/example.com/*")
		add(root + "/go/ir/testdata")
		add(root + "/go/ir/testdata/src/*")
	}
	add(filepath.Join(os.Getenv("VERIF_ROOT"), "corpus", "C02"))
	var out []string
	for _, d := range dirs {
		if st, err := os.Stat(d); err == nil && st.IsDir() {
			out = append(out, d)
		}
	}
	sort.Strings(out)
	return out
}

// TestCorpora is sharded: directory i is handled by shard i mod nshards.
func TestCorpora(t *testing.T) {
	defer flushStats()
	dirs := testdataDirs(!ev.Thorough())
	modes := allModes
	if !ev.Thorough() {
		modes = []ir.BuilderMode{0, ir.NaiveForm, ir.GlobalDebug | ir.InstantiateGenerics, ir.NaiveForm | ir.GlobalDebug | ir.InstantiateGenerics | ir.BuildSerially}
	}
	for i, d := range dirs {
		if i%ev.NShards() != ev.Shard() {
			continue
		}
		if ev.PastDeadline() {
			ev.Count("corpus_dirs_skipped_after_deadline", 1)
			continue
		}
		m := modes
		if strings.Contains(d, "/corpus/C02") {
			m = allModes
		}
		checkDir(t, d, m)
	}
}

// TestRepoPackages loads packages of the repository (and std in thorough) through go/packages.
func TestRepoPackages(t *testing.T) {
	defer flushStats()
	patterns := []string{"./go/ir", "./pattern", "./unused", "./lintcmd/...", "./analysis/...", "./go/types/typeutil"}
	if ev.Thorough() {
		patterns = []string{"./...", "std"}
	}
	// shard 0..3 take one mode each in quick; thorough spreads 16 modes over shards
	modes := []ir.BuilderMode{0, ir.NaiveForm | ir.GlobalDebug, ir.InstantiateGenerics | ir.GlobalDebug, ir.NaiveForm | ir.InstantiateGenerics | ir.BuildSerially}
	if ev.Thorough() {
		modes = allModes
	}
	var mine []ir.BuilderMode
	for i, m := range modes {
		if i%ev.NShards() == ev.Shard() {
			mine = append(mine, m)
		}
	}
	if len(mine) == 0 {
		return
	}
	cfg := &packages.Config{Mode: packages.LoadAllSyntax, Dir: "/repo", Env: append(os.Environ(), "GOFLAGS=-mod=mod", "GOPROXY=off")}
	initial, err := packages.Load(cfg, patterns...)
	if err != nil {
		ev.Infra("packages.Load: %v", err)
		return
	}
	var ok []*packages.Package
	for _, p := range initial {
		if len(p.Errors) == 0 && p.Types != nil && !p.IllTyped {
			ok = append(ok, p)
		} else {
			ev.Count("repo_packages_with_load_errors", 1)
		}
	}
	for _, mode := range mine {
		func() {
			defer func() {
				if r := recover(); r != nil {
					ev.Violate("TestRepoPackages", fmt.Sprintf("builder panicked in mode %q: %v", mode.String(), r), "txt", []byte(mode.String()))
					t.Errorf("panic: %v", r)
				}
			}()
			prog, pkgs := irutil.Packages(ok, mode)
			prog.Build()
			ev.Count("repo_packages_built", len(pkgs))
			for i, pkg := range pkgs {
				if pkg == nil {
					continue
				}
				if msg := validate(prog, []*ir.Package{pkg}, ok[i].PkgPath, mode); msg != "" {
					ev.Violate("TestRepoPackages", fmt.Sprintf("ill-formed IR for %s in builder mode %q\n%s", ok[i].PkgPath, mode.String(), trunc(msg)), "pkg.txt", []byte(ok[i].PkgPath+"\n"+fmt.Sprint(uint(mode))))
					t.Errorf("%s mode %s:\n%s", ok[i].PkgPath, mode.String(), trunc(msg))
				}
			}
		}()
	}
}

func trunc(s string) string {
	if len(s) > 3000 {
		return s[:3000] + "…"
	}
	return s
}

func TestReplay(t *testing.T) {
	f := ev.ReplayFile()
	if f == "" {
		return
	}
	b, err := os.ReadFile(f)
	if err != nil {
		ev.Infra("read %s: %v", f, err)
		return
	}
	switch {
	case strings.HasSuffix(f, ".go"):
		for _, mode := range allModes {
			if msg, _ := evalSource(string(b), mode); msg != "" {
				ev.Violate("TestReplay", fmt.Sprintf("mode %q:\n%s", mode.String(), msg), "go", b)
				t.Errorf("mode %s:\n%s", mode.String(), msg)
			}
		}
	case strings.HasSuffix(f, ".txt"):
		lines := strings.Split(strings.TrimSpace(string(b)), "\n")
		checkDir(t, lines[0], allModes)
	default:
		var c Case
		if err := json.Unmarshal(b, &c); err != nil {
			ev.Infra("decode %s: %v", f, err)
			return
		}
		if msg, _ := evalSource(c.Src, ir.BuilderMode(c.Mode)); msg != "" {
			ev.Violate("TestReplay", msg, "json", b)
			t.Errorf("%s", msg)
		}
	}
}
