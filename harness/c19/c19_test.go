package c19

import (
	"bytes"
	"encoding/json"
	"fmt"
	"go/types"
	"os"
	"os/exec"
	"path/filepath"
	"sort"
	"strings"
	"testing"

	"honnef.co/go/tools/go/gcsizes"
	"pgregory.net/rapid"
	"verif/harness/internal/ev"
	"verif/harness/internal/irbuild"
)

func TestMain(m *testing.M) { ev.Main(m) }

const rule = "case = a generated package of struct types (1-8 fields, nesting depth <=3, over bool, all int/uint/float/complex sizes, uintptr, string, pointers, slices, maps, chans, funcs, interfaces, arrays incl. length 0 and arrays of padded structs, nested/empty structs, interior and trailing zero-size fields, named and aliased field types); oracles: (1) gcsizes.Sizes vs go/types' gc size model, in process; (2) structlayout -json vs unsafe.Sizeof/Alignof/Offsetof printed by the compiled package; (3) structlayout-optimize output is a permutation with true sizes/alignments, a valid layout, and not larger; non-trivial = struct with a padding segment, a zero-size field, a complex field or a nested struct at non-zero offset; distinct by canonical type string"

// ---------------------------------------------------------------- type generator

type typeGen struct {
	t     *rapid.T
	decls []string // named type declarations emitted before the structs
	names []string // usable named types
}

func (g *typeGen) pick(label string, n int) int { return rapid.IntRange(0, n-1).Draw(g.t, label) }

var basics = []string{"bool", "int8", "int16", "int32", "int64", "uint8", "uint16", "uint32", "uint64", "int", "uint", "uintptr", "float32", "float64", "complex64", "complex128", "string", "byte", "rune"}

func (g *typeGen) typ(depth int) string {
	k := g.pick("kind", 22)
	if depth <= 0 && k >= 14 {
		k = g.pick("kind0", 14)
	}
	switch k {
	case 0, 1, 2, 3, 4, 5, 6:
		return basics[g.pick("basic", len(basics))]
	case 7:
		return "*" + basics[g.pick("basic", len(basics))]
	case 8:
		return "[]" + basics[g.pick("basic", len(basics))]
	case 9:
		return []string{"map[string]int", "chan int", "func()", "func(int) bool", "interface{}", "error", "interface{ M() }", "any"}[g.pick("ref", 8)]
	case 10:
		return "struct{}"
	case 11:
		return "[0]" + basics[g.pick("basic", len(basics))]
	case 12, 13:
		if len(g.names) > 0 {
			return g.names[g.pick("named", len(g.names))]
		}
		return "complex64"
	case 14, 15:
		return fmt.Sprintf("[%d]%s", g.pick("alen", 4), g.typ(depth-1))
	default:
		return g.structType(depth - 1)
	}
}

func (g *typeGen) structType(depth int) string {
	n := g.pick("nfields", 9)
	if n == 0 {
		return "struct{}"
	}
	var sb strings.Builder
	sb.WriteString("struct{ ")
	for i := 0; i < n; i++ {
		if i > 0 {
			sb.WriteString("; ")
		}
		fmt.Fprintf(&sb, "F%d %s", i, g.typ(depth))
	}
	sb.WriteString(" }")
	return sb.String()
}

type Case struct {
	Src   string   `json:"src"`
	Types []string `json:"types"`
}

func genCase(t *rapid.T, ntypes int) *Case {
	g := &typeGen{t: t}
	var sb strings.Builder
	sb.WriteString("package p\n\n")
	// a few named and aliased types usable as field types
	nn := g.pick("nnamed", 4)
	for i := 0; i < nn; i++ {
		name := fmt.Sprintf("N%d", i)
		switch g.pick("namedkind", 4) {
		case 0:
			fmt.Fprintf(&sb, "type %s %s\n", name, basics[g.pick("basic", len(basics))])
		case 1:
			fmt.Fprintf(&sb, "type %s = %s\n", name, basics[g.pick("basic", len(basics))])
		case 2:
			fmt.Fprintf(&sb, "type %s %s\n", name, g.structType(1))
		default:
			fmt.Fprintf(&sb, "type %s [%d]%s\n", name, g.pick("alen", 3), basics[g.pick("basic", len(basics))])
		}
		g.names = append(g.names, name)
	}
	c := &Case{}
	for i := 0; i < ntypes; i++ {
		name := fmt.Sprintf("T%d", i)
		fmt.Fprintf(&sb, "type %s %s\n", name, g.structType(rapid.IntRange(0, 3).Draw(t, "depth")))
		c.Types = append(c.Types, name)
		g.names = append(g.names, name) // later structs may nest earlier ones
	}
	c.Src = sb.String()
	return c
}

// ---------------------------------------------------------------- oracle 1: in-process

var gcModel = types.SizesFor("gc", "amd64")

func classify(gt types.Sizes, T types.Type) (nontrivial bool, classes []string) {
	st, ok := T.Underlying().(*types.Struct)
	if !ok {
		return false, nil
	}
	var fields []*types.Var
	for i := 0; i < st.NumFields(); i++ {
		fields = append(fields, st.Field(i))
	}
	offs := gt.Offsetsof(fields)
	pos := int64(0)
	pad, zero, cplx, nested := false, false, false, false
	for i, f := range fields {
		if offs[i] > pos {
			pad = true
		}
		sz := gt.Sizeof(f.Type())
		if sz == 0 {
			zero = true
		}
		if b, ok := f.Type().Underlying().(*types.Basic); ok && b.Info()&types.IsComplex != 0 {
			cplx = true
		}
		if _, ok := f.Type().Underlying().(*types.Struct); ok && offs[i] > 0 && sz > 0 {
			nested = true
		}
		pos = offs[i] + sz
	}
	if gt.Sizeof(T) > pos {
		pad = true
	}
	if pad {
		classes = append(classes, "has_padding")
	}
	if zero {
		classes = append(classes, "has_zero_size_field")
	}
	if cplx {
		classes = append(classes, "has_complex_field")
	}
	if nested {
		classes = append(classes, "nested_struct_at_nonzero_offset")
	}
	return pad || zero || cplx || nested, classes
}

// compareSizes walks T and every type nested in it.
func compareSizes(T types.Type, seen map[string]bool, sb *strings.Builder) {
	key := types.TypeString(T, nil)
	if seen[key] {
		return
	}
	seen[key] = true
	impl := gcsizes.ForArch("amd64")
	if a, b := impl.Sizeof(T), gcModel.Sizeof(T); a != b {
		fmt.Fprintf(sb, "Sizeof(%s): gcsizes %d, compiler model %d\n", key, a, b)
	}
	if a, b := impl.Alignof(T), gcModel.Alignof(T); a != b {
		fmt.Fprintf(sb, "Alignof(%s): gcsizes %d, compiler model %d\n", key, a, b)
	}
	switch t := T.Underlying().(type) {
	case *types.Struct:
		var fields []*types.Var
		for i := 0; i < t.NumFields(); i++ {
			fields = append(fields, t.Field(i))
		}
		a, b := impl.Offsetsof(fields), gcModel.Offsetsof(fields)
		if fmt.Sprint(a) != fmt.Sprint(b) {
			fmt.Fprintf(sb, "Offsetsof(%s): gcsizes %v, compiler model %v\n", key, a, b)
		}
		for _, f := range fields {
			compareSizes(f.Type(), seen, sb)
		}
	case *types.Array:
		compareSizes(t.Elem(), seen, sb)
	}
}

func evalInProcess(c *Case) (msg string, ok bool) {
	b, err := irbuild.Check([]irbuild.Pkg{{Path: "p", Files: map[string]string{"p.go": c.Src}}}, "go1.26")
	if err != nil {
		ev.Count("gen_invalid", 1)
		return "", false
	}
	var sb strings.Builder
	seen := map[string]bool{}
	for _, name := range c.Types {
		T := b.Types["p"].Scope().Lookup(name).Type()
		nt, classes := classify(gcModel, T)
		ev.Case(ev.Hash("inproc", types.TypeString(T.Underlying(), nil)), nt, append(classes, "inprocess_type")...)
		compareSizes(T, seen, &sb)
	}
	return sb.String(), true
}

func TestGcsizesInProcess(t *testing.T) {
	ev.Rule(rule)
	ev.Assume("go/types' SizesFor(\"gc\",\"amd64\") is the compiler's size model (cross-checked against compiled programs in TestBinaries)")
	ev.Check(t, "TestGcsizesInProcess", func(rt *rapid.T) {
		c := genCase(rt, 1+rapid.IntRange(0, 3).Draw(rt, "ntypes"))
		js, _ := json.Marshal(c)
		ev.Begin("TestGcsizesInProcess", "json", js)
		msg, ok := evalInProcess(c)
		if !ok {
			rt.Skip("generator produced an invalid package")
		}
		if msg != "" {
			ev.Failf(rt, "TestGcsizesInProcess", "gcsizes disagrees with the compiler's size model\n%s\nsource:\n%s", msg, c.Src)
		}
	})
}

// ---------------------------------------------------------------- oracle 2+3: real binaries

type Field struct {
	Name      string `json:"name"`
	Type      string `json:"type"`
	Start     int64  `json:"start"`
	End       int64  `json:"end"`
	Size      int64  `json:"size"`
	Align     int64  `json:"align"`
	IsPadding bool   `json:"is_padding"`
}

type leaf struct {
	name        string
	off, sz, al int64
}

// truth is produced by a compiled program: per type its size, alignment and leaves.
type truth struct {
	size, align int64
	leaves      []leaf
	top         []leaf // top-level fields (nested structs not flattened)
}

// leafPaths enumerates the leaves structlayout flattens to: fields of nested
// non-empty structs recursively.
func leafPaths(st *types.Struct, prefix string, out *[]string) {
	for i := 0; i < st.NumFields(); i++ {
		f := st.Field(i)
		if s2, ok := f.Type().Underlying().(*types.Struct); ok && s2.NumFields() != 0 {
			leafPaths(s2, prefix+"."+f.Name(), out)
		} else {
			*out = append(*out, prefix+"."+f.Name())
		}
	}
}

func driverSource(c *Case, pkg *types.Package) string {
	var sb strings.Builder
	sb.WriteString("package main\n\nimport (\n\t\"fmt\"\n\t\"unsafe\"\n\t\"t/p\"\n)\n\nfunc main() {\n")
	for _, name := range c.Types {
		st := pkg.Scope().Lookup(name).Type().Underlying().(*types.Struct)
		fmt.Fprintf(&sb, "\t{\n\t\tvar x p.%s\n\t\t_ = x\n\t\tfmt.Println(\"T\", %q, unsafe.Sizeof(x), unsafe.Alignof(x))\n", name, name)
		var paths []string
		leafPaths(st, "", &paths)
		for _, p := range paths {
			// offset of x.A.B.C = sum of Offsetof over the prefixes
			parts := strings.Split(strings.TrimPrefix(p, "."), ".")
			var terms []string
			for i := range parts {
				terms = append(terms, "unsafe.Offsetof(x."+strings.Join(parts[:i+1], ".")+")")
			}
			sel := "x." + strings.Join(parts, ".")
			fmt.Fprintf(&sb, "\t\tfmt.Println(\"L\", %q, %s, unsafe.Sizeof(%s), unsafe.Alignof(%s))\n", name+p, strings.Join(terms, "+"), sel, sel)
		}
		for i := 0; i < st.NumFields(); i++ {
			f := st.Field(i).Name()
			fmt.Fprintf(&sb, "\t\tfmt.Println(\"F\", %q, unsafe.Offsetof(x.%s), unsafe.Sizeof(x.%s), unsafe.Alignof(x.%s))\n", name+"."+f, f, f, f)
		}
		sb.WriteString("\t}\n")
	}
	sb.WriteString("}\n")
	return sb.String()
}

func run(dir string, env []string, stdin []byte, name string, args ...string) (stdout, stderr string, err error) {
	cmd := exec.Command(name, args...)
	cmd.Dir = dir
	cmd.Env = append(os.Environ(), env...)
	if stdin != nil {
		cmd.Stdin = bytes.NewReader(stdin)
	}
	var o, e bytes.Buffer
	cmd.Stdout, cmd.Stderr = &o, &e
	err = cmd.Run()
	return o.String(), e.String(), err
}

func tile(fields []Field, total int64) string {
	fs := append([]Field(nil), fields...)
	sort.SliceStable(fs, func(i, j int) bool { return fs[i].Start < fs[j].Start })
	pos := int64(0)
	for _, f := range fs {
		if f.Start != pos {
			kind := "gap"
			if f.Start < pos {
				kind = "overlap"
			}
			return fmt.Sprintf("%s: segment %q starts at %d, previous segment ended at %d", kind, f.Name+f.Type, f.Start, pos)
		}
		if f.End-f.Start != f.Size || f.Size < 0 {
			return fmt.Sprintf("segment %q: start %d end %d size %d", f.Name, f.Start, f.End, f.Size)
		}
		pos = f.End
	}
	if pos != total {
		return fmt.Sprintf("segments cover [0,%d) but the struct has size %d", pos, total)
	}
	return ""
}

func evalBinaries(c *Case, work string) (msg string, infra string) {
	b, err := irbuild.Check([]irbuild.Pkg{{Path: "t/p", Files: map[string]string{"p.go": c.Src}}}, "go1.26")
	if err != nil {
		ev.Count("gen_invalid", 1)
		return "", ""
	}
	pkg := b.Types["t/p"]
	os.MkdirAll(filepath.Join(work, "p"), 0o755)
	os.WriteFile(filepath.Join(work, "go.mod"), []byte("module t\n\ngo 1.26\n"), 0o644)
	os.WriteFile(filepath.Join(work, "p", "p.go"), []byte(c.Src), 0o644)
	os.WriteFile(filepath.Join(work, "main.go"), []byte(driverSource(c, pkg)), 0o644)
	out, errs, err := run(work, nil, nil, "go", "run", ".")
	if err != nil {
		return "", fmt.Sprintf("go run failed: %v\n%s", err, errs)
	}
	tr := map[string]*truth{}
	for _, line := range strings.Split(strings.TrimSpace(out), "\n") {
		var kind, name string
		var a, b2, c3 int64
		parts := strings.Fields(line)
		if len(parts) < 4 {
			continue
		}
		kind, name = parts[0], strings.Trim(parts[1], `"`)
		fmt.Sscan(parts[2], &a)
		fmt.Sscan(parts[3], &b2)
		if len(parts) > 4 {
			fmt.Sscan(parts[4], &c3)
		}
		tname := strings.SplitN(name, ".", 2)[0]
		switch kind {
		case "T":
			tr[name] = &truth{size: a, align: b2}
		case "L":
			tr[tname].leaves = append(tr[tname].leaves, leaf{name, a, b2, c3})
		case "F":
			tr[tname].top = append(tr[tname].top, leaf{name, a, b2, c3})
		}
	}
	var sb strings.Builder
	bin := ev.BinDir()
	for _, name := range c.Types {
		gt := tr[name]
		if gt == nil {
			return "", "driver printed nothing for " + name
		}
		T := pkg.Scope().Lookup(name).Type()
		nt, classes := classify(gcModel, T)
		ev.Case(ev.Hash("bin", types.TypeString(T.Underlying(), nil)), nt, append(classes, "binary_type")...)
		// the compiled program is the ground truth; the go/types model must agree with it (guards oracle 1)
		if gcModel.Sizeof(T) != gt.size || gcModel.Alignof(T) != gt.align {
			return "", fmt.Sprintf("go/types gc model disagrees with the compiler for %s: model size %d align %d, compiled %d %d", name, gcModel.Sizeof(T), gcModel.Alignof(T), gt.size, gt.align)
		}
		o, e, err := run(work, nil, nil, filepath.Join(bin, "structlayout"), "-json", "t/p", name)
		if err != nil {
			fmt.Fprintf(&sb, "%s: structlayout failed: %v %s\n", name, err, e)
			continue
		}
		var fields []Field
		if err := json.Unmarshal([]byte(o), &fields); err != nil {
			fmt.Fprintf(&sb, "%s: structlayout output is not JSON: %v\n%s\n", name, err, o)
			continue
		}
		// leaves
		var got []Field
		for _, f := range fields {
			if !f.IsPadding {
				got = append(got, f)
			}
		}
		if len(got) != len(gt.leaves) {
			fmt.Fprintf(&sb, "%s: structlayout lists %d fields, the type has %d leaves\n", name, len(got), len(gt.leaves))
		} else {
			for i, l := range gt.leaves {
				f := got[i]
				// the zero-size last field of a non-empty (possibly nested) struct is shown with the byte gc adds after it; overlaps are caught by the tiling check
				sizeOK := f.Size == l.sz || (l.sz == 0 && f.Size == 1)
				if f.Name != l.name || f.Start != l.off || !sizeOK || f.Align != l.al {
					fmt.Fprintf(&sb, "%s: field %s: structlayout offset %d size %d align %d; compiler offset %d size %d align %d\n", name, l.name, f.Start, f.Size, f.Align, l.off, l.sz, l.al)
				}
			}
		}
		if m := tile(fields, gt.size); m != "" && len(fields) > 0 {
			fmt.Fprintf(&sb, "%s: segments do not tile the struct: %s\n", name, m)
		}
		if len(fields) == 0 && gt.size != 0 {
			fmt.Fprintf(&sb, "%s: no segments for a struct of size %d\n", name, gt.size)
		}
		// optimize: fed with structlayout's own output (as a user would pipe it)
		if len(fields) == 0 {
			continue
		}
		oo, oe, err := run(work, nil, []byte(o), filepath.Join(bin, "structlayout-optimize"), "-json")
		if err != nil {
			fmt.Fprintf(&sb, "%s: structlayout-optimize failed: %v %s\n", name, err, oe)
			continue
		}
		var opt []Field
		if err := json.Unmarshal([]byte(oo), &opt); err != nil {
			fmt.Fprintf(&sb, "%s: structlayout-optimize output is not JSON: %v\n%s\n", name, err, oo)
			continue
		}
		want := map[string]leaf{}
		for _, l := range gt.top {
			want[l.name] = l
		}
		seen := map[string]bool{}
		var total, maxAlign int64 = 0, 1
		for _, f := range opt {
			if f.End > total {
				total = f.End
			}
			if f.IsPadding {
				continue
			}
			l, ok := want[f.Name]
			if !ok || seen[f.Name] {
				fmt.Fprintf(&sb, "%s: optimize output has field %q which is not a (distinct) field of the input\n", name, f.Name)
				continue
			}
			seen[f.Name] = true
			isLast := f.End == total
			_ = isLast
			if f.Size != l.sz && !(l.sz == 0 && f.Size == 1) {
				fmt.Fprintf(&sb, "%s: optimize reports size %d for %s, its true size is %d\n", name, f.Size, f.Name, l.sz)
			}
			if f.Align != l.al {
				fmt.Fprintf(&sb, "%s: optimize reports alignment %d for %s, its true alignment is %d\n", name, f.Align, f.Name, l.al)
			}
			if l.al > 0 && f.Start%l.al != 0 {
				fmt.Fprintf(&sb, "%s: optimize places %s (alignment %d) at offset %d\n", name, f.Name, l.al, f.Start)
			}
			if l.al > maxAlign {
				maxAlign = l.al
			}
		}
		for n := range want {
			if !seen[n] {
				fmt.Fprintf(&sb, "%s: optimize output lost field %s\n", name, n)
			}
		}
		// the layout the compiler gives the fields in the proposed order (go/types gc model,
		// cross-checked against compiled code for the original order above)
		if st, ok := T.Underlying().(*types.Struct); ok {
			byName := map[string]*types.Var{}
			for i := 0; i < st.NumFields(); i++ {
				byName[name+"."+st.Field(i).Name()] = st.Field(i)
			}
			var vars []*types.Var
			var claimed []int64
			complete := true
			for _, f := range opt {
				if f.IsPadding {
					continue
				}
				v, ok := byName[f.Name]
				if !ok {
					complete = false
					break
				}
				vars = append(vars, types.NewField(0, pkg, v.Name(), v.Type(), false))
				claimed = append(claimed, f.Start)
			}
			if complete && len(vars) == st.NumFields() {
				reordered := types.NewStruct(vars, nil)
				realOffs := gcModel.Offsetsof(vars)
				realSize := gcModel.Sizeof(reordered)
				// The statement demands a valid layout that is not larger; it does not demand that the
				// printed offsets are the compiler's for the new order (a trailing zero-size field is fed
				// to optimize with the one-byte representation). Differences are counted, not judged.
				differs := realSize != total
				for i := range vars {
					if realOffs[i] != claimed[i] {
						differs = true
					}
				}
				if differs {
					ev.Count("optimize_claimed_layout_differs_from_compiler_layout_of_that_order", 1)
				}
				if realSize > gt.size {
					fmt.Fprintf(&sb, "%s: the order proposed by optimize has size %d, larger than the original %d\n", name, realSize, gt.size)
				}
			}
		}
		if m := tile(opt, total); m != "" {
			fmt.Fprintf(&sb, "%s: optimize output does not tile: %s\n", name, m)
		}
		if total%maxAlign != 0 {
			fmt.Fprintf(&sb, "%s: optimize total size %d is not a multiple of the struct alignment %d\n", name, total, maxAlign)
		}
		if total > gt.size {
			fmt.Fprintf(&sb, "%s: optimize grows the struct from %d to %d bytes\n", name, gt.size, total)
		}
	}
	return sb.String(), ""
}

func TestBinaries(t *testing.T) {
	n := ev.EnvInt("C19_BATCHES", 3, 60)
	for i := 0; i < n; i++ {
		if ev.PastDeadline() {
			return
		}
		// each batch is an independent rapid case drawn from the derived seed
		seed := int(ev.Seed()%1000003)*131 + i
		c := rapid.Custom(func(rt *rapid.T) *Case { return genCase(rt, 5) }).Example(seed)
		js, _ := json.Marshal(c)
		work, _ := os.MkdirTemp("", "c19-")
		msg, infra := evalBinaries(c, work)
		os.RemoveAll(work)
		if infra != "" {
			ev.Infra("%s", infra)
			t.Fatalf("%s", infra)
		}
		if msg != "" {
			min := shrinkCase(c, msg)
			js, _ = json.Marshal(min.c)
			ev.Violate("TestBinaries", fmt.Sprintf("structlayout tools disagree with the compiler\n%s\nsource:\n%s", min.msg, min.c.Src), "bin.json", js)
			t.Errorf("%s", min.msg)
			return
		}
		if ev.WantSample() {
			ev.Sample(map[string]any{"kind": "binaries", "source": c.Src})
		}
	}
}

type shrunk struct {
	c   *Case
	msg string
}

// shrinkCase reduces a failing batch to a single failing type (the batch is a list of independent types).
func shrinkCase(c *Case, msg string) shrunk {
	best := shrunk{c, msg}
	for _, name := range c.Types {
		if !strings.Contains(msg, name+":") {
			continue
		}
		c1 := &Case{Src: c.Src, Types: []string{name}}
		work, _ := os.MkdirTemp("", "c19s-")
		m, infra := evalBinaries(c1, work)
		os.RemoveAll(work)
		if infra == "" && m != "" {
			return shrunk{c1, m}
		}
	}
	return best
}

// ---------------------------------------------------------------- corpus / replay

func replayFile(t *testing.T, f, test string) {
	b, err := os.ReadFile(f)
	if err != nil {
		ev.Infra("read %s: %v", f, err)
		return
	}
	var c Case
	if err := json.Unmarshal(b, &c); err != nil {
		ev.Infra("decode %s: %v", f, err)
		return
	}
	msg, _ := evalInProcess(&c)
	if !strings.Contains(f, ".inproc.") {
		work, _ := os.MkdirTemp("", "c19r-")
		m2, infra := evalBinaries(&c, work)
		os.RemoveAll(work)
		if infra != "" {
			ev.Infra("%s", infra)
			return
		}
		msg += m2
	}
	if msg != "" {
		ev.Violate(test, fmt.Sprintf("replay of %s:\n%s", f, msg), "json", b)
		t.Errorf("%s", msg)
	} else {
		t.Logf("replay %s: property holds", f)
	}
}

func TestCorpus(t *testing.T) {
	if os.Getenv("VERIF_SECONDARY") != "" {
		return
	}
	files, _ := filepath.Glob(filepath.Join(os.Getenv("VERIF_ROOT"), "corpus", "C19", "*.json"))
	sort.Strings(files)
	for _, f := range files {
		replayFile(t, f, "TestCorpus")
	}
}

func TestReplay(t *testing.T) {
	if f := ev.ReplayFile(); f != "" {
		replayFile(t, f, "TestReplay")
	}
}
