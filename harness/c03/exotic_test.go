package c03

import (
	"encoding/json"
	"fmt"
	"os"
	"path/filepath"
	"regexp"
	"sort"
	"strings"
	"sync"
	"testing"
	"time"

	"pgregory.net/rapid"
	"verif/harness/internal/ev"
	"verif/harness/internal/exogen"
)

const exoticRule = " || TestExotic: case = a module of 2-3 packages drawn by internal/exogen (\"exotic but valid Go\": units of the families typedecl/typeuse [recursive, self-embedding, generic, deeply nested, parenthesised types in every position; values handed to the reflection-walking APIs], generic [operators drawn from the operator classes of a drawn constraint, with and without core type], chain [if/else-if chains, switches and the prefix-trimming idiom over one complex expression or near-variants of it], stmts, callgraph [drawn call edges incl. unconditional cycles and range-over-func edges, nil comparisons of results], printf [formats drawn from the verb grammar], docs [doc comments in every position, styled names], api [about 340 call shapes of SA/S/ST/QF checks with exoticised operands and callees: parenthesised, deferred, method expressions, package-level initialisers], tests [_test.go declarations]; 40-110 family draws per package), units that do not type-check removed in-process, module accepted by go build; oracle as above plus termination within a time limit; a failure is classified by panic message and frames into a signature, minimised by removing units, and reported once per signature and process; signatures listed as known are counted, and their input class is excluded from generation by construction; the classes not excluded are switched on by a fixed rotation (the four most frequent ones never together) so that frequent crashes do not mask rare ones; non-trivial = at least one diagnostic; classes fam_* / feat_* give the distribution of families and features over cases"

// procStart approximates the start of the shard's budget.
var procStart = time.Now()

// exoticShare is the fraction of the soft budget that TestExotic may use; the
// tests that run before it stop when only that much is left (see reserve).
func exoticShare() float64 {
	return float64(ev.EnvInt("C03_EXOTIC_SHARE_PCT", 40, 30)) / 100
}

func budgetEnd() (time.Time, bool) {
	d := os.Getenv("VERIF_DEADLINE")
	if d == "" {
		return time.Time{}, false
	}
	var n int64
	fmt.Sscan(d, &n)
	return time.Unix(n, 0), n > 0
}

var exoticStarted bool

func init() {
	classify = crashSig
	// reserve the tail of the budget for TestExotic
	reserve = func() bool {
		end, ok := budgetEnd()
		if !ok || exoticStarted || os.Getenv("VERIF_REPLAY") != "" {
			return false
		}
		total := end.Sub(procStart)
		return time.Until(end) < time.Duration(exoticShare()*float64(total))
	}
}

// sigTable lists the signatures of the recorded findings whose input class the
// generator can switch off. The first frequentSigs of them crash so often
// (more than one package in five contains the shape) that they would mask each
// other and everything else: at most one of them is switched on per case, by a
// fixed rotation over shard and case number; each of the others is on in about
// half of the cases.
var sigTable = []string{
	"st1020-parenthesised-receiver",
	"nilness-ordered-comparison-with-typeparam-zero",
	"astutil-equal-func-type",
	"sa5009-indexed-verb-wrong-type",
	"astutil-equal-field-tag",
	"unify-max-depth-exceeded",
	"copyexpr-indexlist-nil-index",
	"redundant-type-partial-instantiation",
	"sa1001-parenthesised-callee",
	"sa5012-call-source-defer-go",
	"sa5012-typeparam-array-length",
	"callcheck-method-expression-receiver",
	"sa1003-position-in-package-initialiser",
	"range-over-func-call-without-position",
	"sa1019-instantiated-literal-selector",
	"fakexml-embedded-pointer-cycle",
	"fakereflect-fieldbyindex-embedded-pointer",
	"no-termination",
}

const frequentSigs = 4

// focusSlots is the rotation of the frequent classes: the rarer of them get more turns.
// In the turns of slot frequentSigs none of them is on, and each of the other classes is on
// with probability 1/2; in the other turns the other classes are off.
// (16 entries: with 16 shards every class has its turns already among the first cases of the shards)
var focusSlots = []int{0, 1, 2, 3, 4, 1, 2, 3, 0, 4, 3, 1, 2, 4, 3, 4}

var exoticCaseNo int

// include reports whether the generator produces the input class of the
// recorded finding sig: always, unless the finding is listed as known (a fixed
// finding excludes nothing), or when C03_INCLUDE_KNOWN is set.
func include(sig string) bool { return os.Getenv("C03_INCLUDE_KNOWN") != "" || !ev.IsKnown(sig) }

var (
	panicRe = regexp.MustCompile(`(?m)^(panic: .*|fatal error: .*)$`)
	frameRe = regexp.MustCompile(`(?m)^(honnef\.co/go/tools/[^\s(]+)`)
	hexRe   = regexp.MustCompile(`0x[0-9a-f]+|\b[0-9]+\b`)
)

// crashSig classifies a failure message of lint() into a signature: one per
// root cause where panic message and top frame identify it, else derived from
// the top frame inside the module and the normalised message.
func crashSig(msg string) string {
	pm := panicRe.FindString(msg)
	frames := frameRe.FindAllString(msg, -1)
	top := ""
	for _, f := range frames {
		if strings.Contains(f, "analysis/lint.ExhaustiveTypeSwitch") {
			continue
		}
		top = f
		break
	}
	has := func(s string) bool {
		for _, f := range frames {
			if strings.Contains(f, s) {
				return true
			}
		}
		return false
	}
	switch {
	case strings.Contains(pm, "unhandled token") && has("facts/nilness"):
		return "nilness-ordered-comparison-with-typeparam-zero"
	case has("staticcheck/sa5009.checkImpl") && !strings.Contains(pm, "unhandled"):
		return "sa5009-indexed-verb-wrong-type"
	case strings.Contains(pm, "unreachable: *ast.FuncType") && has("astutil.Equal"):
		return "astutil-equal-func-type"
	case strings.Contains(pm, "*ast.ParenExpr") && has("stylecheck/st1020"):
		return "st1020-parenthesised-receiver"
	case strings.Contains(pm, "nil pointer dereference") && top != "" && strings.Contains(top, "astutil.Equal"):
		return "astutil-equal-field-tag"
	case strings.Contains(pm, "unify: max depth exceeded"):
		return "unify-max-depth-exceeded"
	case strings.Contains(pm, "ast.Walk: unexpected node type <nil>"):
		return "copyexpr-indexlist-nil-index"
	case strings.Contains(pm, "nil pointer dereference") && strings.Contains(top, "unused.(*graph).use"):
		// an identifier without an object: the syntax tree was modified after type checking, which
		// is what CopyExpr does to the index lists of explicit instantiations (same root cause)
		return "copyexpr-indexlist-nil-index"
	case strings.Contains(pm, "not *ast.SelectorExpr") && has("staticcheck/sa1001"):
		return "sa1001-parenthesised-callee"
	case strings.Contains(pm, "not *ast.CallExpr") && has("staticcheck/sa5012"):
		return "sa5012-call-source-defer-go"
	case strings.Contains(pm, "not *types.Array") && has("staticcheck/sa5012"):
		return "sa5012-typeparam-array-length"
	case strings.Contains(pm, "no file found for node with position -") && has("staticcheck/sa1003"):
		return "sa1003-position-in-package-initialiser"
	case strings.Contains(pm, "no file found for node with position -") && has("staticcheck/sa5007"):
		return "range-over-func-call-without-position"
	case strings.Contains(pm, "unsupported selector") && has("staticcheck/sa1019"):
		return "sa1019-instantiated-literal-selector"
	case strings.Contains(pm, "stack overflow") && strings.Contains(msg, "fakexml.getTypeInfo"):
		return "fakexml-embedded-pointer-cycle"
	case strings.Contains(pm, "is *types.Pointer, not *types.Struct") && has("fakereflect"):
		return "fakereflect-fieldbyindex-embedded-pointer"
	case strings.Contains(pm, "nil pointer dereference") && has("callcheck.checkCalls") && has("staticcheck/sa101"):
		return "callcheck-method-expression-receiver"
	case strings.Contains(msg, "RedundantTypeInDeclarationChecker") && strings.Contains(pm, "cannot infer"):
		return "redundant-type-partial-instantiation"
	}
	if strings.Contains(msg, "did not terminate within") {
		return "no-termination"
	}
	if pm == "" {
		// not a crash: compile/config problem or bad exit status
		first := strings.SplitN(msg, "\n", 2)[0]
		return "noncrash-" + ev.Hash(hexRe.ReplaceAllString(trunc(first, 80), "N"))[:8]
	}
	top = strings.TrimPrefix(top, "honnef.co/go/tools/")
	top = strings.NewReplacer("/", "-", ".", "-", "(", "", ")", "", "*", "").Replace(top)
	return "crash-" + top + "-" + ev.Hash(hexRe.ReplaceAllString(pm, "N"))[:6]
}

// exoCase is a drawn module: the generated packages (for minimisation) and the files.
type exoCase struct {
	pkgs  []*exogen.Package
	names []string
}

func (c *exoCase) toCase() *Case {
	out := &Case{Files: map[string]string{"go.mod": "module example.com/m\n\ngo 1.26.0\n"}}
	for i, p := range c.pkgs {
		if len(p.Units) == 0 {
			continue
		}
		if s := p.Source(false); s != "" {
			out.Files[c.names[i]+"/p.go"] = s
		} else {
			out.Files[c.names[i]+"/p.go"] = "package " + p.Name + "\n"
		}
		if s := p.Source(true); s != "" {
			out.Files[c.names[i]+"/p_test.go"] = s
		}
	}
	return out
}

// evaluateExotic is evaluate with the order of the two steps chosen by the
// caller: with buildFirst it is evaluate; otherwise the module is linted first
// and `go build` / `go test -run ^$` are consulted only when the linter fails,
// to establish the precondition of the property before a failure is believed.
// (A module that the linter accepts without a compile problem has been
// type-checked by its loader; building it as well would only double the cost.)
func evaluateExotic(c *Case, buildFirst bool) (msg string, ndiag int, infra string) {
	if buildFirst {
		return evaluate(c)
	}
	dir, err := os.MkdirTemp("", "c03x-")
	if err != nil {
		return "", 0, err.Error()
	}
	defer os.RemoveAll(dir)
	for name, src := range c.Files {
		p := filepath.Join(dir, name)
		os.MkdirAll(filepath.Dir(p), 0o755)
		os.WriteFile(p, []byte(src), 0o644)
	}
	msg, ndiag, infra = lint(dir, "./...")
	if infra != "" || msg == "" {
		return msg, ndiag, infra
	}
	if out := goBuild(dir, "./..."); out != "" {
		return "", 0, "generated module rejected by go build:\n" + out
	}
	return msg, ndiag, ""
}

func (c *exoCase) nunits() int {
	n := 0
	for _, p := range c.pkgs {
		n += len(p.Units)
	}
	return n
}

// minimise removes units as long as the failure keeps its signature. It
// evaluates at most maxEval candidates and stops at the deadline.
func minimise(c *exoCase, sig, msgOf string, maxEval int, stop func() bool) (*exoCase, int) {
	evals := 0
	still := func(cand *exoCase) bool {
		evals++
		msg, _, infra := evaluateExotic(cand.toCase(), false)
		return infra == "" && msg != "" && crashSig(msg) == sig
	}
	cur := c
	// 1. one package at a time
	if len(cur.pkgs) > 1 {
		for i := range cur.pkgs {
			if evals >= maxEval || stop() {
				return cur, evals
			}
			cand := &exoCase{pkgs: []*exogen.Package{cur.pkgs[i]}, names: []string{cur.names[i]}}
			if still(cand) {
				cur = cand
				break
			}
		}
	}
	if len(cur.pkgs) != 1 {
		return cur, evals
	}
	// 2. the units of one family only: the families that the crashing analyzer most likely looks at first
	p := cur.pkgs[0]
	for _, fam := range suspectFamilies(sig, msgOf) {
		if evals >= maxEval || stop() {
			return cur, evals
		}
		keep := map[int]bool{}
		for _, u := range p.Units {
			if u.Family == fam {
				keep[u.ID] = true
			}
		}
		if len(keep) == 0 {
			continue
		}
		q := p.Keep(keep)
		if len(q.Units) >= len(p.Units) {
			continue
		}
		cand := &exoCase{pkgs: []*exogen.Package{q}, names: cur.names}
		if still(cand) {
			p, cur = q, cand
			break
		}
	}
	// 3. halve the unit set of the package (dependencies are kept by Keep)
	ids := make([]int, 0, len(p.Units))
	for _, u := range p.Units {
		ids = append(ids, u.ID)
	}
	chunk := (len(ids) + 1) / 2
	for chunk >= 1 && len(ids) > 1 {
		progress := false
		for lo := 0; lo < len(ids); lo += chunk {
			if evals >= maxEval || stop() {
				return cur, evals
			}
			hi := min(lo+chunk, len(ids))
			keep := map[int]bool{}
			for i, id := range ids {
				if i < lo || i >= hi {
					keep[id] = true
				}
			}
			if len(keep) == 0 {
				continue
			}
			q := p.Keep(keep)
			if len(q.Units) >= len(p.Units) {
				continue
			}
			cand := &exoCase{pkgs: []*exogen.Package{q}, names: cur.names}
			if still(cand) {
				p, cur = q, cand
				ids = ids[:0]
				for _, u := range p.Units {
					ids = append(ids, u.ID)
				}
				progress = true
				break
			}
		}
		if !progress {
			if chunk == 1 {
				break
			}
			chunk = (chunk + 1) / 2
		} else {
			chunk = min(chunk, (len(ids)+1)/2)
		}
	}
	return cur, evals
}

// suspectFamilies orders at most three generator families by how likely their
// units are what the crashing code looks at, judged by the frames of the crash.
func suspectFamilies(sig, msg string) []string {
	table := []struct{ frame, fams string }{
		{"facts/nilness", "generic callgraph stmts"},
		{"sa5009", "printf stmts"},
		{"printf", "printf stmts"},
		{"astutil", "chain api stmts"},
		{"quickfix/qf100", "chain api stmts"},
		{"stylecheck/", "typedecl docs generic"},
		{"unused", "typedecl typeuse chain"},
		{"typeutil", "typedecl typeuse generic"},
		{"sharedcheck", "api docs stmts"},
		{"simple/", "api chain stmts"},
		{"staticcheck/sa4", "api callgraph chain"},
		{"staticcheck/", "api stmts callgraph"},
	}
	for _, e := range table {
		if strings.Contains(msg, e.frame) {
			return strings.Fields(e.fams)
		}
	}
	return []string{"api", "stmts", "chain"}
}

var (
	seenMu   sync.Mutex
	seenSigs = map[string]int{}
)

// TestExotic lints modules of exogen packages.
func TestExotic(t *testing.T) {
	exoticStarted = true
	ev.Rule(rule + exoticRule)
	// The shards run side by side on all cores already; the go command and the linter started for
	// a case gain nothing from starting one thread per core each (the kernel time of the run is as
	// high as its user time without this).
	lintTimeout = time.Duration(ev.EnvInt("C03_LINT_TIMEOUT_S", 240, 900)) * time.Second
	defer func() { lintTimeout = 0 }()
	if os.Getenv("GOMAXPROCS") == "" && ev.NShards() > 1 {
		os.Setenv("GOMAXPROCS", fmt.Sprint(ev.EnvInt("C03_CHILD_GOMAXPROCS", 4, 4)))
		defer os.Unsetenv("GOMAXPROCS")
	}
	ev.Assume("exogen packages: units that do not type-check in-process (go/types against the export data of the standard library) are removed before the module is written; `go build` and `go test -run ^$` must then accept the module, otherwise the case is counted as gen_invalid and skipped")
	start := time.Now()
	end, haveEnd := budgetEnd()
	var myEnd time.Time
	if haveEnd {
		total := end.Sub(procStart)
		myEnd = start.Add(time.Duration(exoticShare() * float64(total)))
		if myEnd.After(end) {
			myEnd = end
		}
	}
	stop := func() bool {
		if haveEnd && time.Now().After(myEnd) {
			return true
		}
		return ev.PastDeadline()
	}
	// a new failure may be minimised for a short time beyond the share (only runs that report a
	// violation are prolonged by it)
	grace := time.Duration(ev.EnvInt("C03_MINIMISE_GRACE_S", 60, 300)) * time.Second
	failed := false
	ev.Check(t, "TestExotic", func(rt *rapid.T) {
		if stop() {
			ev.Count("exotic_cases_skipped_after_share", 1)
			return
		}
		seenMu.Lock()
		exoticCaseNo++
		focus := focusSlots[(ev.Shard()+exoticCaseNo-1)%len(focusSlots)] // frequentSigs: none of them
		seenMu.Unlock()
		maskBits := rapid.Uint64().Draw(rt, "class_bits")
		maskBits = (maskBits ^ maskBits>>17) * 0x9E3779B97F4A7C15
		mask := map[string]bool{}
		for i, s := range sigTable {
			if i < frequentSigs {
				mask[s] = i == focus
			} else {
				mask[s] = focus == frequentSigs && maskBits>>(20+uint(i))&1 == 1
			}
		}
		seenMu.Lock()
		for s := range mask {
			if seenSigs[s] > 0 && !ev.IsKnown(s) {
				mask[s] = false // reported in this process already: look past it
			}
		}
		seenMu.Unlock()
		inc := func(sig string) bool { return include(sig) && mask[sig] }
		np := 2 + int(maskBits>>7&1)
		c := &exoCase{}
		t0 := time.Now()
		withTest := int(maskBits >> 9 % uint64(np+1)) // index of the package with a _test.go file (np: none)
		for i := 0; i < np; i++ {
			cfg := exogen.Config{Include: inc, MinUnits: ev.EnvInt("C03_EXOTIC_MIN_UNITS", 40, 40), MaxUnits: ev.EnvInt("C03_EXOTIC_MAX_UNITS", 110, 110), Test: i == withTest}
			c.pkgs = append(c.pkgs, exogen.Generate(rt, "p", cfg))
			c.names = append(c.names, fmt.Sprintf("x%d", i))
		}
		cs := c.toCase()
		js, _ := json.Marshal(cs)
		ev.Count("exotic_ms_generate", int(time.Since(t0).Milliseconds()))
		t0 = time.Now()
		ev.Begin("TestExotic", "json", js)
		// every third case is built before it is linted (that measures the rate of invalid cases);
		// the others are built only when the linter complains
		buildFirst := maskBits>>11%3 == 0
		msg, ndiag, infra := evaluateExotic(cs, buildFirst)
		ev.Count("exotic_ms_evaluate", int(time.Since(t0).Milliseconds()))
		if buildFirst {
			ev.Count("exotic_build_checked", 1)
			ev.Count("exotic_ms_evaluate_with_build", int(time.Since(t0).Milliseconds()))
		}
		if infra != "" {
			ev.Count("gen_invalid", 1)
			if buildFirst {
				ev.Count("exotic_build_checked_invalid", 1)
			}
			ev.Extra("exotic_last_invalid", trunc(infra, 1500))
			rt.Skip(infra)
		}
		classSet := map[string]bool{"exotic": true}
		for _, p := range c.pkgs {
			for _, cl := range p.Classes() {
				classSet[cl] = true
			}
			for s, n := range p.Excluded {
				ev.Count("class_off_"+s, n)
			}
			for f, n := range p.Dropped {
				ev.Count("units_dropped_"+f, n)
			}
			ev.Count("exotic_units", len(p.Units))
			ev.Count("exotic_packages", 1)
		}
		var classes []string
		for cl := range classSet {
			classes = append(classes, cl)
		}
		sort.Strings(classes)
		ev.Case(hashCase(cs), ndiag > 0, classes...)
		ev.Count("diagnostics_seen", ndiag)
		if ndiag > 0 && ev.WantSample() && rapid.IntRange(0, 3).Draw(rt, "sample") == 0 {
			var fams []string
			for _, cl := range classes {
				if strings.HasPrefix(cl, "fam_") {
					fams = append(fams, cl)
				}
			}
			ev.Sample(map[string]any{"test": "TestExotic", "packages": len(c.pkgs), "units": c.nunits(), "families": fams, "diagnostics": ndiag, "first_unit": trunc(c.pkgs[0].Units[0].Text, 300)})
		}
		if msg == "" {
			return
		}
		sig := crashSig(msg)
		seenMu.Lock()
		seenSigs[sig]++
		first := seenSigs[sig] == 1
		seenMu.Unlock()
		if ev.IsKnown(sig) {
			ev.KnownFinding(sig, trunc(msg, 600))
			return
		}
		if !first {
			ev.Count("repeat_"+sig, 1)
			return
		}
		// a new failure: minimise within the time share and report it, then go on searching
		minStart := time.Now()
		small, evals := minimise(c, sig, msg, ev.EnvInt("C03_MINIMISE_EVALS", 14, 40), func() bool {
			return time.Since(minStart) > grace && stop()
		})
		ev.Count("minimise_evaluations", evals)
		scs := small.toCase()
		sjs, _ := json.MarshalIndent(scs, "", " ")
		smsg, _, sinfra := "", 0, ""
		if small != c {
			smsg, _, sinfra = evaluate(scs)
		}
		if small == c || sinfra != "" || smsg == "" {
			scs, sjs, smsg = cs, js, msg
		}
		failed = true
		seenMu.Lock()
		caseNo := exoticCaseNo
		seenMu.Unlock()
		ev.Violate("TestExotic", fmt.Sprintf("[%s] staticcheck fails on a module that go build accepts (case %d of shard %d; %d of %d units left after %d minimisation steps):\n%s", sig, caseNo, ev.Shard(), small.nunits(), c.nunits(), evals, trunc(smsg, 2500)), "json", sjs)
	})
	if failed {
		t.Errorf("TestExotic found failures (see VERIF-VIOLATION lines)")
	}
}
