package c03

import (
	"bytes"
	"context"
	"encoding/json"
	"fmt"
	"os"
	"os/exec"
	"path/filepath"
	"sort"
	"strings"
	"sync"
	"testing"
	"time"

	"pgregory.net/rapid"
	"verif/harness/internal/cfggen"
	"verif/harness/internal/declgen"
	"verif/harness/internal/ev"
	"verif/harness/internal/gogen"
)

func TestMain(m *testing.M) { ev.Main(m) }

const rule = "case = a module of generated packages accepted by `go build`: gogen programs (deeply nested executable subset), cfggen programs (goto graphs, recover blocks), declgen packages (declaration graphs) and a feature soup (drawn subsets of ~35 hand-written declarations covering channels, select, go, unsafe, complex, labels, builtins, struct conversions, aliases, iota, generics incl. generic aliases, range-over-func, every range/switch form), plus corpora (repository packages, check testdata that compiles, std in thorough); oracle = the real staticcheck binary with all analyzers incl. quickfix (-checks all) terminates normally: exit status 0 or 1, no panic / internal error on stderr, no problem of category compile or config; non-trivial = module for which the run reported at least one diagnostic (the analyzers really ran on it); distinct by hash of the sources"

type Case struct {
	Files map[string]string `json:"files"` // path relative to the module root
	// TimeoutS, when positive, bounds the run of the linter on a saved case (cases that record a
	// linter that does not terminate).
	TimeoutS int `json:"timeout_s,omitempty"`
}

var (
	cacheOnce sync.Once
	cacheDir  string
)

// lintTimeout, when positive, bounds one run of the linter.
var lintTimeout time.Duration

func scCache() string {
	cacheOnce.Do(func() {
		cacheDir, _ = os.MkdirTemp("", "c03-sccache-")
	})
	return cacheDir
}

type problem struct {
	Code     string `json:"code"`
	Message  string `json:"message"`
	Location struct {
		File string `json:"file"`
		Line int    `json:"line"`
	} `json:"location"`
}

// lint runs the real binary on patterns in dir and judges the outcome.
func lint(dir string, patterns ...string) (msg string, ndiag int, infra string) {
	args := append([]string{"-debug.run-quickfix-analyzers", "-checks", "all", "-f", "json"}, patterns...)
	cmd := exec.Command(filepath.Join(ev.BinDir(), "staticcheck"), args...)
	if lintTimeout > 0 {
		// hook for tests that also judge termination (exotic_test.go)
		ctx, cancel := context.WithTimeout(context.Background(), lintTimeout)
		defer cancel()
		cmd = exec.CommandContext(ctx, filepath.Join(ev.BinDir(), "staticcheck"), args...)
		defer func() {
			if ctx.Err() == context.DeadlineExceeded && infra == "" {
				msg = fmt.Sprintf("staticcheck did not terminate within %v (killed)\n", lintTimeout) + msg
			}
		}()
	}
	cmd.Dir = dir
	cmd.Env = append(os.Environ(), "STATICCHECK_CACHE="+scCache())
	var stdout, stderr bytes.Buffer
	cmd.Stdout, cmd.Stderr = &stdout, &stderr
	err := cmd.Run()
	code := 0
	if err != nil {
		ee, ok := err.(*exec.ExitError)
		if !ok {
			return "", 0, "cannot start staticcheck: " + err.Error()
		}
		code = ee.ExitCode()
	}
	var sb strings.Builder
	se := stderr.String()
	if code != 0 && code != 1 {
		fmt.Fprintf(&sb, "staticcheck exited with status %d\n", code)
	}
	if strings.Contains(se, "panic:") || strings.Contains(se, "internal error") || strings.Contains(se, "fatal error:") {
		fmt.Fprintf(&sb, "staticcheck crashed:\n%s\n", trunc(se, 3000))
	}
	for _, line := range strings.Split(stdout.String(), "\n") {
		if strings.TrimSpace(line) == "" {
			continue
		}
		var p problem
		if json.Unmarshal([]byte(line), &p) != nil {
			continue
		}
		ndiag++
		if p.Code == "compile" || p.Code == "config" {
			fmt.Fprintf(&sb, "%s problem on code the Go toolchain builds: %s:%d: %s\n", p.Code, p.Location.File, p.Location.Line, trunc(p.Message, 400))
		}
	}
	return sb.String(), ndiag, ""
}

func trunc(s string, n int) string {
	if len(s) > n {
		return s[:n] + "…"
	}
	return s
}

// goBuild reports why the Go toolchain rejects the packages (incl. their tests, which staticcheck lints too), or "".
func goBuild(dir string, patterns ...string) string {
	outDir, err := os.MkdirTemp("", "c03-build-")
	if err != nil {
		return err.Error()
	}
	defer os.RemoveAll(outDir)
	run := func(args ...string) (string, bool) {
		cmd := exec.Command("go", append(args, patterns...)...)
		cmd.Dir = dir
		out, err := cmd.CombinedOutput()
		return string(out), err == nil
	}
	// -o <dir>/ keeps binaries of main packages out of the source tree; without any main package
	// that form is an error and the plain form writes nothing
	if out, ok := run("build", "-o", outDir+"/"); !ok {
		if !strings.Contains(out, "no main packages to build") {
			return trunc(out, 2000)
		}
		if out, ok := run("build"); !ok {
			return trunc(out, 2000)
		}
	}
	if out, ok := run("test", "-count=1", "-vet=off", "-run", "^$"); !ok {
		return trunc(out, 2000)
	}
	return ""
}

func soupPackage(t *rapid.T, id int) string {
	var sb strings.Builder
	sb.WriteString("package soup\n\nimport \"unsafe\"\n\nvar _ unsafe.Pointer\n\n")
	n := rapid.IntRange(4, 16).Draw(t, "nsnippets")
	idx := rapid.Permutation(seq(len(snippets))).Draw(t, "snippets")
	for i := 0; i < n && i < len(idx); i++ {
		sb.WriteString(fmt.Sprintf(snippets[idx[i]], id*100+i))
		sb.WriteString("\n\n")
	}
	return sb.String()
}

func seq(n int) []int {
	s := make([]int, n)
	for i := range s {
		s[i] = i
	}
	return s
}

func genCase(t *rapid.T) *Case {
	c := &Case{Files: map[string]string{"go.mod": "module example.com/m\n\ngo 1.26.0\n"}}
	np := rapid.IntRange(2, 6).Draw(t, "npkgs")
	for i := 0; i < np; i++ {
		switch rapid.IntRange(0, 5).Draw(t, "kind") {
		case 0, 1:
			c.Files[fmt.Sprintf("soup%d/soup.go", i)] = soupPackage(t, i)
		case 2:
			p := gogen.Generate(t, gogen.DefaultConfig())
			c.Files[fmt.Sprintf("g%d/p.go", i)] = p.Src
		case 3:
			p := cfggen.Generate(t, cfggen.Default())
			c.Files[fmt.Sprintf("c%d/p.go", i)] = p.Src
		default:
			p := declgen.Generate(t, "p")
			for f := range p.Files {
				c.Files[fmt.Sprintf("d%d/%s", i, p.FileName(f))] = p.Source(f)
			}
		}
	}
	return c
}

func evaluate(c *Case) (msg string, ndiag int, infra string) {
	dir, err := os.MkdirTemp("", "c03-")
	if err != nil {
		return "", 0, err.Error()
	}
	defer os.RemoveAll(dir)
	for name, src := range c.Files {
		p := filepath.Join(dir, name)
		os.MkdirAll(filepath.Dir(p), 0o755)
		os.WriteFile(p, []byte(src), 0o644)
	}
	if out := goBuild(dir, "./..."); out != "" {
		return "", 0, "generated module rejected by go build:\n" + out
	}
	return lint(dir, "./...")
}

func hashCase(c *Case) string {
	var names []string
	for n := range c.Files {
		names = append(names, n)
	}
	sort.Strings(names)
	var parts []string
	for _, n := range names {
		parts = append(parts, n, c.Files[n])
	}
	return ev.Hash(parts...)
}

// classify, when set, maps a failure message of lint to the signature of a
// recorded finding (exotic_test.go sets it to crashSig).
var classify func(msg string) string

// reserve, when set, reports that the rest of the soft budget belongs to a
// test that runs later in this package (exotic_test.go sets it); the tests
// before it then return early, exactly as they do after the deadline.
var reserve func() bool

func reserved() bool {
	if reserve != nil && reserve() {
		ev.Count("cases_skipped_for_reserved_budget", 1)
		return true
	}
	return false
}

func TestGenerated(t *testing.T) {
	ev.Rule(rule)
	ev.Assume("a module is only linted after `go build ./...` accepted it; the default target version (module go 1.26.0) is used")
	ev.Check(t, "TestGenerated", func(rt *rapid.T) {
		if reserved() {
			return
		}
		c := genCase(rt)
		js, _ := json.Marshal(c)
		ev.Begin("TestGenerated", "json", js)
		msg, ndiag, infra := evaluate(c)
		if infra != "" {
			ev.Count("gen_invalid_or_infra", 1)
			ev.Extra("last_infra", trunc(infra, 1500))
			rt.Skip(infra)
		}
		var kinds []string
		for n := range c.Files {
			if n != "go.mod" {
				kinds = append(kinds, "pkg_"+strings.TrimRight(filepath.Dir(n), "0123456789"))
			}
		}
		ev.Case(hashCase(c), ndiag > 0, kinds...)
		ev.Count("diagnostics_seen", ndiag)
		if ev.WantSample() {
			var names []string
			for n := range c.Files {
				names = append(names, n)
			}
			sort.Strings(names)
			ev.Sample(map[string]any{"files": names, "diagnostics": ndiag})
		}
		if msg != "" {
			ev.Failf(rt, "TestGenerated", "%s", msg)
		}
	})
}

// TestSoupAll lints a package containing every soup snippet once (deterministic; shard 0 only).
func TestSoupAll(t *testing.T) {
	if os.Getenv("VERIF_SECONDARY") != "" {
		return
	}
	var sb strings.Builder
	sb.WriteString("package soup\n\nimport \"unsafe\"\n\nvar _ unsafe.Pointer\n\n")
	for i, s := range snippets {
		sb.WriteString(fmt.Sprintf(s, i))
		sb.WriteString("\n\n")
	}
	c := &Case{Files: map[string]string{"go.mod": "module example.com/m\n\ngo 1.26.0\n", "soup/soup.go": sb.String()}}
	msg, ndiag, infra := evaluate(c)
	if infra != "" {
		ev.Infra("the feature soup does not build: %s", infra)
		t.Fatalf("%s", infra)
	}
	ev.Case(hashCase(c), ndiag > 0, "soup_all")
	if msg != "" {
		js, _ := json.Marshal(c)
		ev.Violate("TestSoupAll", msg, "json", js)
		t.Errorf("%s", msg)
	}
}

// TestCorpora lints repository packages and check testdata packages that `go build` accepts (sharded).
func TestCorpora(t *testing.T) {
	var units [][]string // each: patterns linted together, relative to /repo
	repoPkgs := []string{"./pattern", "./config", "./go/ir", "./unused", "./lintcmd/...", "./analysis/...", "./go/types/typeutil", "./knowledge", "./printf", "./structlayout", "./cmd/...", "./go/loader", "./go/gcsizes", "./simple/s1000", "./staticcheck/sa1019", "./stylecheck/st1003"}
	if ev.Thorough() {
		repoPkgs = []string{"./..."}
	}
	for _, p := range repoPkgs {
		units = append(units, []string{p})
	}
	globs := []string{"/repo/simple/s10[0-3]*/testdata/go1.0/*", "/repo/staticcheck/sa40[0-2]*/testdata/go1.0/*", "/repo/quickfix/qf100*/testdata/go1.0/*", "/repo/stylecheck/st100*/testdata/go1.0/*"}
	if ev.Thorough() {
		globs = []string{"/repo/*/*/testdata/go1.*/*", "/repo/unused/testdata/src/example.com/*", "/repo/analysis/facts/*/testdata/src/example.com/*"}
	}
	for _, g := range globs {
		m, _ := filepath.Glob(g)
		sort.Strings(m)
		for _, d := range m {
			if st, err := os.Stat(d); err == nil && st.IsDir() {
				units = append(units, []string{"./" + strings.TrimPrefix(d, "/repo/")})
			}
		}
	}
	if ev.Thorough() {
		units = append(units, []string{"std"})
	}
	for i, u := range units {
		if i%ev.NShards() != ev.Shard() {
			continue
		}
		if ev.PastDeadline() || reserved() {
			ev.Count("corpus_units_skipped_after_deadline", 1)
			continue
		}
		if out := goBuild("/repo", u...); out != "" {
			ev.Count("corpus_units_not_buildable", 1)
			continue
		}
		msg, ndiag, infra := lint("/repo", u...)
		if infra != "" {
			ev.Infra("%s", infra)
			continue
		}
		ev.Case(ev.Hash("corpus", strings.Join(u, " ")), ndiag > 0, "corpus_unit")
		ev.Count("diagnostics_seen", ndiag)
		if msg != "" {
			ev.Violate("TestCorpora", fmt.Sprintf("staticcheck on %v (in /repo):\n%s", u, msg), "unit.txt", []byte(strings.Join(u, "\n")))
			t.Errorf("%v: %s", u, msg)
		}
	}
}

func replayFile(t *testing.T, f, test string) {
	b, err := os.ReadFile(f)
	if err != nil {
		ev.Infra("read %s: %v", f, err)
		return
	}
	var msg, infra string
	if strings.HasSuffix(f, ".txt") {
		u := strings.Split(strings.TrimSpace(string(b)), "\n")
		msg, _, infra = lint("/repo", u...)
	} else {
		var c Case
		if err := json.Unmarshal(b, &c); err != nil {
			ev.Infra("decode %s: %v", f, err)
			return
		}
		if c.TimeoutS > 0 {
			save := lintTimeout
			lintTimeout = time.Duration(c.TimeoutS) * time.Second
			msg, _, infra = evaluate(&c)
			lintTimeout = save
		} else {
			msg, _, infra = evaluate(&c)
		}
	}
	if infra != "" {
		ev.Infra("%s: %s", f, infra)
		return
	}
	ev.Case(ev.Hash("replay", string(b)), true, "corpus")
	if msg != "" && classify != nil && ev.IsKnown(classify(msg)) {
		// a recorded finding (known_findings.json, kind "known"): counted, not a violation
		ev.KnownFinding(classify(msg), trunc(msg, 600))
		t.Logf("replay %s: known finding %s", f, classify(msg))
	} else if msg != "" {
		ev.Violate(test, fmt.Sprintf("replay of %s:\n%s", f, msg), "json", b)
		t.Errorf("%s", msg)
	} else {
		t.Logf("replay %s: property holds", f)
	}
}

func TestCorpus(t *testing.T) {
	fs, _ := filepath.Glob(filepath.Join(os.Getenv("VERIF_ROOT"), "corpus", "C03", "*.json"))
	sort.Strings(fs)
	for i, f := range fs {
		// the saved cases are spread over the shards (every case is replayed exactly once per run)
		if i%ev.NShards() != ev.Shard() {
			continue
		}
		replayFile(t, f, "TestCorpus")
	}
}

func TestReplay(t *testing.T) {
	if f := ev.ReplayFile(); f != "" {
		replayFile(t, f, "TestReplay")
	}
}
