package c03

// snippets is a "feature soup": self-contained top-level declarations that
// together cover the statement and expression forms of the language that the
// executable generator (gogen) does not produce: channels, select, go, unsafe,
// complex numbers, labelled statements of every kind, min/max/clear, struct
// conversions, aliases, iota groups, blank identifiers, init functions,
// generics corner cases, range-over-func, method sets, embedded interfaces...
// %d is replaced by a unique number so that a snippet can be used several times.
var snippets = []string{
	// channels, select, go
	`func s%[1]d_chan(n int) int {
	ch := make(chan int, n)
	done := make(chan struct{})
	go func() {
		defer close(done)
		for v := range ch {
			_ = v
		}
	}()
	for i := 0; i < n; i++ {
		ch <- i
	}
	close(ch)
	<-done
	return cap(ch) + len(ch)
}`,
	`func s%[1]d_select(a, b chan int, c chan<- string, d <-chan bool) (r int) {
	select {}
}`,
	`func s%[1]d_select2(a, b chan int, c chan<- string, d <-chan bool) (r int) {
	for {
		select {
		case v := <-a:
			r += v
		case v, ok := <-b:
			if !ok {
				return r
			}
			r -= v
		case c <- "x":
		case <-d:
			break
		default:
			return -1
		}
	}
}`,
	`func s%[1]d_select3(a chan int) {
	select {
	case a <- 1:
	}
	select {
	case <-a:
	default:
	}
	var nilch chan int
	select {
	case <-nilch:
	case v := <-a:
		_ = v
	}
}`,
	`func s%[1]d_go(f func(int), g interface{ M(int) }) {
	go f(1)
	go g.M(2)
	go func(x int) { f(x) }(3)
	defer f(4)
	defer g.M(5)
	defer func() { recover() }()
	go println("x")
	defer print()
}`,
	// unsafe
	`func s%[1]d_unsafe(p *int32, s []byte, str string, u uintptr) (uintptr, *byte, string, []byte) {
	up := unsafe.Pointer(p)
	q := (*[4]byte)(up)
	_ = unsafe.Sizeof(*p) + unsafe.Alignof(u) + unsafe.Offsetof(struct{ a, b int }{}.b)
	r := unsafe.Add(up, 2)
	sl := unsafe.Slice(&q[0], 4)
	return uintptr(r), unsafe.SliceData(s), unsafe.String(unsafe.StringData(str), len(str)), sl
}`,
	// complex numbers
	`func s%[1]d_complex(a complex128, b complex64, f float64) (complex128, float32, bool) {
	c := complex(f, 2)
	a += c * 2i
	a /= 1 + 1i
	var z complex64 = complex(float32(real(a)), imag(b))
	return a - complex128(z), real(b) + imag(z), a == c || b != z
}`,
	// labelled statements of every kind
	`func s%[1]d_labels(n int, m map[string]int, ch chan int) int {
	r := 0
outer:
	for i := 0; i < n; i++ {
	inner:
		for k := range m {
			switch {
			case len(k) > 3:
				continue outer
			case len(k) == 0:
				break inner
			default:
				continue inner
			}
		}
	sw:
		switch i {
		case 1:
			if n > 2 {
				break sw
			}
			fallthrough
		case 2:
			r++
		}
	sel:
		select {
		case v := <-ch:
			if v > 0 {
				break sel
			}
		default:
		}
		{
			if r > 10 {
				goto blkend
			}
			r += 2
		}
	blkend:
		if r > 100 {
			goto end
		}
	}
end:
	return r
}`,
	`func s%[1]d_goto(n int) (r int) {
	i := 0
loop:
	if i < n {
		r += i
		i++
		goto loop
	}
	goto done
done:
	;
	return
}`,
	// builtins
	`func s%[1]d_builtins(a, b int, x, y float64, s, t string, m map[int]string, sl []int) (int, float64, string) {
	clear(m)
	clear(sl)
	mn := min(a, b, 3)
	mx := max(x, y)
	ms := min(s, t)
	sl = append(sl, a, b)
	sl = append(sl[:1], sl[2:]...)
	n := copy(sl, sl[1:])
	bs := append([]byte("x"), s...)
	delete(m, n)
	var arr [4]int
	_ = len(arr) + cap(sl) + len(m) + len(s) + len(bs) + cap(arr[:])
	p := new(int)
	*p = mn
	println(mn, mx, ms)
	panic(ms)
}`,
	// struct conversions, aliases, iota, blanks
	`type s%[1]d_A struct {
	X int ` + "`json:\"x\"`" + `
	Y string
}

type s%[1]d_B struct {
	X int
	Y string ` + "`yaml:\"y\"`" + `
}

type s%[1]d_Alias = s%[1]d_A

type s%[1]d_Weekday uint8

const (
	s%[1]d_Sun s%[1]d_Weekday = iota
	s%[1]d_Mon
	_
	s%[1]d_Wed
	s%[1]d_big = 1 << (10 * iota)
	s%[1]d_str = "s" + "t"
)

func s%[1]d_conv(a s%[1]d_A) (s%[1]d_B, s%[1]d_Alias, s%[1]d_Weekday) {
	b := s%[1]d_B(a)
	var al s%[1]d_Alias = a
	_, _ = b, al
	var _ = s%[1]d_big
	_ = s%[1]d_str[1]
	pa := (*s%[1]d_B)(&a)
	_ = pa
	return b, al, s%[1]d_Wed - s%[1]d_Mon
}`,
	`var s%[1]d_v1, s%[1]d_v2 = s%[1]d_two()

var (
	_          = s%[1]d_v1
	s%[1]d_v3 int = len(s%[1]d_v2)
)

func s%[1]d_two() (int, string) { return 1, "x" }

func init() {
	s%[1]d_v3++
}

func init() {
	_ = s%[1]d_v3
}`,
	// generics
	`type s%[1]d_Num interface {
	~int | ~int64 | ~float64
}

type s%[1]d_List[T any] struct {
	head *s%[1]d_node[T]
	n    int
}

type s%[1]d_node[T any] struct {
	v    T
	next *s%[1]d_node[T]
}

func (l *s%[1]d_List[T]) Push(v T) { l.head = &s%[1]d_node[T]{v, l.head}; l.n++ }

func (l *s%[1]d_List[T]) All() func(func(int, T) bool) {
	return func(yield func(int, T) bool) {
		i := 0
		for n := l.head; n != nil; n = n.next {
			if !yield(i, n.v) {
				return
			}
			i++
		}
	}
}

func s%[1]d_Sum[T s%[1]d_Num](xs ...T) (s T) {
	for _, x := range xs {
		s += x
	}
	return s
}

func s%[1]d_Map[K comparable, V any, R any](m map[K]V, f func(K, V) R) []R {
	var out []R
	for k, v := range m {
		out = append(out, f(k, v))
	}
	return out
}

func s%[1]d_useGenerics() (int, float64, []string) {
	var l s%[1]d_List[string]
	l.Push("a")
	l.Push("b")
	n := 0
	for i, v := range l.All() {
		if v == "a" {
			break
		}
		n += i
	}
	for range l.All() {
		n++
	}
	f := s%[1]d_Sum[float64]
	return n + s%[1]d_Sum(1, 2, 3), f(1.5), s%[1]d_Map(map[int]bool{1: true}, func(k int, v bool) string { return "x" })
}`,
	`type s%[1]d_Pair[K comparable, V any] struct {
	Key K
	Val V
}

type s%[1]d_StrPair[V any] = s%[1]d_Pair[string, V]

func s%[1]d_Zero[T any]() (z T) { return }

func s%[1]d_Ptr[T any, PT interface {
	*T
	Set(int)
}](v int) T {
	var t T
	PT(&t).Set(v)
	return t
}

type s%[1]d_setter int

func (s *s%[1]d_setter) Set(v int) { *s = s%[1]d_setter(v) }

func s%[1]d_gen2() (s%[1]d_StrPair[int], s%[1]d_setter, any) {
	p := s%[1]d_StrPair[int]{"k", 1}
	var a any = s%[1]d_Zero[[]int]()
	switch a.(type) {
	case []int:
	}
	return p, s%[1]d_Ptr[s%[1]d_setter](3), a
}`,
	// range forms
	`func s%[1]d_ranges(s string, a [3]int, p *[3]int, sl []string, m map[string][]int, ch chan int, n int, it func(func(int) bool), it2 func(func(string, int) bool), it0 func(func() bool)) (r int) {
	for i, c := range s {
		r += i + int(c)
	}
	for i := range a {
		r += a[i]
	}
	for i, v := range p {
		r += i + v
	}
	for _, v := range sl {
		r += len(v)
	}
	for k, v := range m {
		r += len(k) + len(v)
	}
	for v := range ch {
		r += v
	}
	for i := range n {
		r += i
	}
	for range n {
		r++
	}
	for range 3 {
	}
	for v := range it {
		if v > 3 {
			continue
		}
		r += v
	}
	for k, v := range it2 {
		r += len(k) + v
		if r > 100 {
			return
		}
	}
	for range it0 {
		r--
	}
	var i int
	for i = range sl {
	}
	for i, r = range a {
	}
	return r + i
}`,
	// switches
	`func s%[1]d_switches(x any, n int, s string, e error) (r int) {
	switch y := x.(type) {
	case nil:
		r = 1
	case int, int8:
		_ = y
		r = 2
	case string:
		r = len(y)
	case error:
		r = len(y.Error())
	case interface{ Len() int }:
		r = y.Len()
	case []int:
		r = len(y)
	case func() int:
		r = y()
	default:
		r = -1
	}
	switch x := n * 2; {
	case x > 10, x < -10:
		r++
	case x == 0:
		r--
		fallthrough
	default:
		r *= 2
	}
	switch n {
	}
	switch s {
	case "a", "b":
		r += 1
	case s:
		r += 2
	}
	switch e.(type) {
	}
	switch t := e.(type) {
	default:
		_ = t
	}
	return
}`,
	// closures, defer, recover, method values
	`type s%[1]d_T struct {
	n int
	s%[1]d_E
	*s%[1]d_P
	f func() int
}

type s%[1]d_E struct{ e int }

func (e s%[1]d_E) Val() int   { return e.e }
func (e *s%[1]d_E) Inc()      { e.e++ }

type s%[1]d_P struct{ p int }

func (p *s%[1]d_P) Ptr() int { return p.p }

type s%[1]d_I interface {
	Val() int
	Inc()
}

type s%[1]d_J interface {
	s%[1]d_I
	Ptr() int
}

func s%[1]d_methods(t *s%[1]d_T) (r int, err error) {
	defer func() {
		if x := recover(); x != nil {
			err, _ = x.(error)
			r = -1
		}
	}()
	var i s%[1]d_I = t
	var j s%[1]d_J = t
	f := t.Val
	g := (*s%[1]d_T).Inc
	h := s%[1]d_E.Val
	k := i.Inc
	g(t)
	k()
	defer t.Inc()
	defer j.Ptr()
	c := func() func() int {
		n := 0
		return func() int { n++; return n + t.n }
	}()
	t.f = c
	return f() + h(t.s%[1]d_E) + c() + t.f() + j.Val() + t.Ptr() + i.(s%[1]d_J).Ptr(), nil
}`,
	// assignments, operators
	`func s%[1]d_ops(a, b int, u uint8, f float64, s string, p *int, arr []int, m map[string]int) (int, bool) {
	a, b = b, a
	a += b
	a -= 1
	a *= 2
	a /= 3 | 1
	a %%= 7
	a &= 0xff
	a |= 1
	a ^= b
	a <<= 2
	a >>= u
	a &^= 4
	a++
	b--
	*p++
	arr[0]--
	m["k"]++
	m["j"] += 2
	_, ok := m["z"]
	_ = +a - -b + ^a
	c := a &^ b << 1 >> u
	d := !ok && (a < b || a >= b) && a != b
	s += "x"
	s2 := s[1:] + s[:2] + s[1:2]
	arr2 := arr[1:2:3]
	x, y := 1, "two"
	_, _, _, _, _ = s2, arr2, x, y, f*2/3-1
	var (
		e1     int
		e2, e3 = 1, 2.5
	)
	const k = 10
	_, _, _ = e1, e2, e3
	return c + k, d
}`,
	`func s%[1]d_types() {
	type local struct {
		a, b int
		c    [2]string
		d    map[string][]*local
		e    func(int, ...string) (int, error)
		f    chan<- <-chan int
		g    interface {
			M()
			error
		}
	}
	type rec struct{ next *rec }
	type fn func(fn) fn
	var _ = struct {
		X, Y int
	}{1, 2}
	var _ = [...]int{1, 2, 5: 3}
	var _ = []struct{ a int }{{1}, {a: 2}}
	var _ = map[string][]int{"a": {1, 2}, "b": nil}
	var _ = map[[2]int]struct{}{{1, 2}: {}}
	var _ = &[]*rec{{}, {next: &rec{}}}
	var _ = [][]int{{1}, {}}
	var _ fn
	var _ interface{ any }
	var _ = 'x' + 0x1p-2 + 0b101 + 0o17 + 1_000 + 1e3i
	var _ = "raw" + ` + "`multi\nline`" + `
}`,
	`func s%[1]d_variadic(prefix string, rest ...int) (n int) {
	for _, r := range rest {
		n += r
	}
	if len(rest) > 0 {
		return s%[1]d_variadic(prefix, rest[1:]...)
	}
	f := func(xs ...any) int { return len(xs) }
	return f() + f(nil) + f(1, "a", nil) + f([]any{1}...) + n
}`,
	`func s%[1]d_ifs(x, y int, e error, f func() (int, error)) int {
	if v, err := f(); err != nil {
		return -1
	} else if v > x {
		return v
	} else if w := v + y; w > 0 {
		return w
	} else {
		_ = w
	}
	if x := x; x > 0 {
		y = x
	}
	if e != nil {
	} else {
	}
	for {
		break
	}
	for x > 0 {
		x--
	}
	for i, j := 0, 10; i < j; i, j = i+1, j-1 {
		continue
	}
	for ; ; x++ {
		if x > 3 {
			break
		}
	}
	{
		x := "shadow"
		_ = x
	}
	return y
}`,
	`type s%[1]d_Err struct{ code int }

func (e *s%[1]d_Err) Error() string { return "e" }

func s%[1]d_errs(n int) (err error) {
	var p *s%[1]d_Err
	if n > 0 {
		p = &s%[1]d_Err{n}
	}
	if n > 1 {
		return p
	}
	defer func() {
		if r := recover(); r != nil {
			err = r.(error)
		}
	}()
	var e2 error = p
	if e2 == nil {
		return nil
	}
	if pe, ok := e2.(*s%[1]d_Err); ok && pe != nil {
		return pe
	}
	panic(e2)
}`,
	`func s%[1]d_arrays(i int) (int, [2][2]int) {
	var a [2][2]int
	a[i%%2][1] = 3
	b := a
	b[0][0]++
	pa := &a
	pa[1][1] = 4
	c := [...]string{2: "x"}
	s := a[:]
	s2 := pa[0][:]
	s[0][0], s2[1] = 7, 8
	if a == b {
		i++
	}
	var z [0]int
	_ = z
	return len(c) + len(s) + i, *pa
}`,
	`func s%[1]d_strings(s string, bs []byte, rs []rune, r rune, b byte) string {
	t := string(bs) + string(rs) + string(r) + string(b)
	bs2 := []byte(s)
	rs2 := []rune(s)
	for i := 0; i < len(s); i++ {
		if s[i] == 'a' || s[i] >= 0x80 {
			bs2[i] = 'b'
		}
	}
	if s < t || s == "x" {
		return s + t
	}
	_ = rs2
	return string(bs2[:1]) + s[len(s)-1:]
}`,
	`func s%[1]d_maps(m map[string]map[int][]string, k string) int {
	if m == nil {
		m = make(map[string]map[int][]string, 4)
	}
	if _, ok := m[k]; !ok {
		m[k] = map[int][]string{}
	}
	m[k][1] = append(m[k][1], k)
	inner := m[k]
	delete(inner, 2)
	n := 0
	for _, im := range m {
		for range im {
			n++
		}
	}
	type key struct{ a, b int }
	km := map[key]*int{}
	km[key{1, 2}] = new(int)
	*km[key{1, 2}]++
	var nm map[string]int
	return n + len(nm) + nm["absent"] + *km[key{1, 2}]
}`,
	`type s%[1]d_Stack[T any] []T

func (s *s%[1]d_Stack[T]) Push(v T) { *s = append(*s, v) }

func (s *s%[1]d_Stack[T]) Pop() (v T, ok bool) {
	if len(*s) == 0 {
		return v, false
	}
	v = (*s)[len(*s)-1]
	*s = (*s)[:len(*s)-1]
	return v, true
}

type s%[1]d_Named func(int) (string, error)

func (f s%[1]d_Named) Call() string { s, _ := f(1); return s }

func s%[1]d_named() string {
	var st s%[1]d_Stack[func() int]
	st.Push(func() int { return 1 })
	f, _ := st.Pop()
	_ = f()
	return s%[1]d_Named(func(int) (string, error) { return "x", nil }).Call()
}`,
	`func s%[1]d_shifts(a int64, b uint, c int32, d uint8) (int64, uint64, int32) {
	x := a << b
	y := uint64(c) >> d
	z := c << 3 >> (d & 7)
	var s uint = 1<<b - 1
	const big = 1 << 62
	f := float64(1 << 3)
	_ = f
	return x | big>>s, y &^ 1, z
}`,
	`func s%[1]d_funcs() (func(int) func(int) int, int) {
	add := func(a int) func(int) int {
		return func(b int) int { return a + b }
	}
	var rec func(int) int
	rec = func(n int) int {
		if n <= 1 {
			return 1
		}
		return n * rec(n-1)
	}
	r := func(fs ...func(int) int) (t int) {
		for i, f := range fs {
			t += f(i)
		}
		return
	}(add(1), rec, func(int) int { return 0 })
	return add, r
}`,
	`type s%[1]d_Shape interface {
	Area() float64
	Perimeter() float64
}

type s%[1]d_Rect struct{ w, h float64 }
type s%[1]d_Circle struct{ r float64 }

func (r s%[1]d_Rect) Area() float64        { return r.w * r.h }
func (r s%[1]d_Rect) Perimeter() float64   { return 2 * (r.w + r.h) }
func (c *s%[1]d_Circle) Area() float64     { return 3 * c.r * c.r }
func (c *s%[1]d_Circle) Perimeter() float64 { return 6 * c.r }

func s%[1]d_shapes(ss []s%[1]d_Shape) (total float64) {
	ss = append(ss, s%[1]d_Rect{1, 2}, &s%[1]d_Circle{3})
	for _, s := range ss {
		switch v := s.(type) {
		case s%[1]d_Rect:
			total += v.w
		case *s%[1]d_Circle:
			total += v.r
		}
		total += s.Area() + s.Perimeter()
	}
	var cmp s%[1]d_Shape = s%[1]d_Rect{}
	if cmp == ss[0] || cmp != nil {
		total++
	}
	return
}`,
	`func s%[1]d_deferloop(n int) (out []int, err error) {
	for i := 0; i < n; i++ {
		defer func(j int) { out = append(out, j, i) }(i)
	}
	func() {
		defer func() {
			if r := recover(); r != nil {
				err, _ = r.(error)
				panic("again")
			}
		}()
		var m map[string]int
		m["x"] = 1
	}()
	return nil, nil
}`,
	`func s%[1]d_nilcmp(p *int, s []int, m map[int]int, f func(), c chan int, i any, e error) int {
	n := 0
	if p == nil || s == nil || m == nil || f == nil || c == nil || i == nil || e == nil {
		n++
	}
	if nil != p && nil != i {
		n += *p
	}
	var ip any = p
	if ip != nil && ip.(*int) == nil {
		n--
	}
	return n
}`,
}
