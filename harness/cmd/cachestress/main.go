// cachestress is one process of the concurrency sub-check of C05. It opens the
// shared cache directory through the real cache.Open, announces READY, waits
// for one line on stdin (start barrier) and then performs the operations given
// as arguments, validating every hit itself (contents are self-describing, see
// verif/harness/c05.Content):
//
//	put:KEY:VER:LEN   cache.Put of Content(KEY, VER, LEN)
//	putf:KEY:VER:LEN  the same, then read DiskCache.OutputFile(out) as runner.writeCacheReader's callers do
//	getb:KEY          cache.GetBytes
//	getf:KEY          cache.GetFile, then read the returned path
//	trim              DiskCache.Trim
//	close             DiskCache.Close
//	rep:N             repeat everything that follows N times (at most once, first argument after the flags)
//
// One line per operation on stdout:
//
//	OK <op>                      put/trim/close done
//	VALID <op> <version>         hit, complete content of some version of that key, consistent with the entry
//	MISS <op>                    miss
//	GONE <op> <error>            GetFile/OutputFile returned a path that could not be read afterwards
//	PARTIAL <op> <n> of <size>   that path held only a proper prefix of the content when read
//	INVALID <op> <reason>        hit with anything else
//	ERR <op> <error>             Put failed
package main

import (
	"bufio"
	"crypto/sha256"
	"flag"
	"fmt"
	"os"
	"runtime"
	"strconv"
	"strings"

	"bytes"

	"honnef.co/go/tools/lintcmd/cache"
	"verif/harness/c05"
)

func init() {
	// all file-system calls on the initial thread: strace's per-thread injection
	// counters then count the process's calls (used by the trim-race reproduction)
	runtime.LockOSThread()
}

func main() {
	dir := flag.String("dir", "", "cache directory")
	flag.Parse()
	ops := flag.Args()
	c, err := cache.Open(*dir)
	if err != nil {
		fmt.Println("FATAL open:", err)
		os.Exit(4)
	}
	out := bufio.NewWriter(os.Stdout)
	defer out.Flush()
	fmt.Fprintln(out, "READY")
	out.Flush()
	bufio.NewReader(os.Stdin).ReadString('\n')

	rep := 1
	if len(ops) > 0 && strings.HasPrefix(ops[0], "rep:") {
		rep, _ = strconv.Atoi(ops[0][4:])
		ops = ops[1:]
	}
	for r := 0; r < rep; r++ {
		for _, op := range ops {
			f := strings.Split(op, ":")
			switch f[0] {
			case "put", "putf":
				ver, _ := strconv.Atoi(f[2])
				n, _ := strconv.Atoi(f[3])
				data := c05.Content(f[1], ver, n)
				o, size, err := c.Put(c05.ID(f[1]), bytes.NewReader(data))
				switch {
				case err != nil:
					fmt.Fprintf(out, "ERR %s %v\n", op, err)
				case o != c05.OutID(data) || size != int64(n):
					fmt.Fprintf(out, "INVALID %s Put returned output id %x size %d, stored content has %x size %d\n", op, o, size, c05.OutID(data), n)
				default:
					fmt.Fprintf(out, "OK %s\n", op)
					if f[0] == "putf" {
						got, err := os.ReadFile(c.OutputFile(o))
						switch {
						case err != nil:
							fmt.Fprintf(out, "GONE %s %v\n", op, err)
						case len(got) < len(data) && bytes.HasPrefix(data, got):
							fmt.Fprintf(out, "PARTIAL %s %d of %d\n", op, len(got), len(data))
						case !bytes.Equal(got, data):
							fmt.Fprintf(out, "INVALID %s the output file of the content just stored holds %d other bytes\n", op, len(got))
						default:
							fmt.Fprintf(out, "VALID %s %d\n", op, ver)
						}
					}
				}
			case "getb":
				data, e, err := cache.GetBytes(c, c05.ID(f[1]))
				if err != nil {
					fmt.Fprintf(out, "MISS %s\n", op)
					break
				}
				report(out, op, f[1], data, e)
			case "getf":
				file, e, err := cache.GetFile(c, c05.ID(f[1]))
				if err != nil {
					fmt.Fprintf(out, "MISS %s\n", op)
					break
				}
				data, err := os.ReadFile(file)
				if err != nil {
					fmt.Fprintf(out, "GONE %s %v\n", op, err)
					break
				}
				report(out, op, f[1], data, e)
			case "trim":
				c.Trim()
				fmt.Fprintf(out, "OK %s\n", op)
			case "close":
				c.Close()
				fmt.Fprintf(out, "OK %s\n", op)
			default:
				fmt.Fprintf(out, "FATAL unknown op %q\n", op)
				out.Flush()
				os.Exit(5)
			}
		}
	}
}

func report(out *bufio.Writer, op, key string, data []byte, e cache.Entry) {
	ver, err := c05.Validate(key, data)
	switch {
	case err != nil && c05.IsProperPrefix(key, data, int(e.Size)):
		fmt.Fprintf(out, "PARTIAL %s %d of %d\n", op, len(data), e.Size)
	case err != nil:
		fmt.Fprintf(out, "INVALID %s %v\n", op, err)
	case e.Size != int64(len(data)):
		fmt.Fprintf(out, "INVALID %s entry size %d, content has %d bytes\n", op, e.Size, len(data))
	case e.OutputID != cache.OutputID(sha256.Sum256(data)):
		fmt.Fprintf(out, "INVALID %s entry output id %x, content hashes to %x\n", op, e.OutputID, sha256.Sum256(data))
	default:
		fmt.Fprintf(out, "VALID %s %d\n", op, ver)
	}
}
