// putter stores one deterministic content in a cache directory through the
// real cache.Open + DiskCache.Put and can kill its own process (SIGKILL) at a
// chosen point of the store: once -killat bytes have been handed out to Put in
// pass -killpass (Put reads its input twice: pass 1 hashes, pass 2 copies into
// the data file). It is the crash-point helper of check C05.
//
//	putter -dir D -key K -ver V -len L [-chunk C] [-killat k [-killpass p]] [-flipat j]
//	putter -dir D -key K -get          (lookup in a fresh process)
//
// Output: "DONE <outputid> <size>" after a completed Put; exit status 3 with
// "ERR ..." if Put failed; killed by SIGKILL otherwise.
package main

import (
	"bytes"
	"crypto/sha256"
	"flag"
	"fmt"
	"io"
	"os"
	"runtime"
	"syscall"

	"honnef.co/go/tools/lintcmd/cache"
	"verif/harness/c05"
)

func init() {
	// main.main then runs on the initial thread and every file-system call of
	// Put is issued by that one thread (stable syscall counts under strace).
	runtime.LockOSThread()
}

type src struct {
	data     []byte
	pos      int
	chunk    int
	pass     int // number of Seek(0, SeekStart) calls so far
	handed   int // bytes handed out in the current pass
	killAt   int
	killPass int
	flipAt   int // >= 0: from the second pass on, the byte at this offset differs (content changed underfoot)
}

func (s *src) Read(p []byte) (int, error) {
	if s.killAt >= 0 && s.pass == s.killPass && s.handed >= s.killAt {
		syscall.Kill(os.Getpid(), syscall.SIGKILL)
		select {}
	}
	if s.pos >= len(s.data) {
		return 0, io.EOF
	}
	n := len(p)
	if s.chunk > 0 && n > s.chunk {
		n = s.chunk
	}
	if rest := len(s.data) - s.pos; n > rest {
		n = rest
	}
	if s.killAt >= 0 && s.pass == s.killPass && s.handed+n > s.killAt {
		n = s.killAt - s.handed // stop exactly at the crash point
	}
	copy(p, s.data[s.pos:s.pos+n])
	if s.flipAt >= 0 && s.pass >= 2 && s.flipAt >= s.pos && s.flipAt < s.pos+n {
		p[s.flipAt-s.pos] ^= 0xff
	}
	s.pos += n
	s.handed += n
	return n, nil
}

func (s *src) Seek(off int64, whence int) (int64, error) {
	if off != 0 || whence != io.SeekStart {
		return 0, fmt.Errorf("putter: unexpected Seek(%d, %d)", off, whence)
	}
	s.pass++
	s.pos = 0
	s.handed = 0
	return 0, nil
}

func main() {
	dir := flag.String("dir", "", "cache directory")
	key := flag.String("key", "k", "key name")
	ver := flag.Int("ver", 0, "content version")
	n := flag.Int("len", 0, "content length")
	chunk := flag.Int("chunk", 0, "largest number of bytes handed out per Read (0 = unlimited)")
	killAt := flag.Int("killat", -1, "SIGKILL self once this many bytes were handed out in pass -killpass (-1 = never)")
	killPass := flag.Int("killpass", 2, "1 = hash pass, 2 = copy pass")
	flipAt := flag.Int("flipat", -1, "serve a different byte at this offset from the second pass on (content changed underfoot; Put must fail)")
	get := flag.Bool("get", false, "look the key up instead of storing")
	contentKey := flag.String("contentkey", "", "generate the content of this key instead of -key (same output under another action id)")
	readback := flag.Bool("readback", false, "after Put, read DiskCache.OutputFile(out) as runner.writeCacheReader's callers do and print READBACK ok|gone|partial|other")
	flag.Parse()

	c, err := cache.Open(*dir)
	if err != nil {
		fmt.Println("ERR open:", err)
		os.Exit(4)
	}
	id := c05.ID(*key)
	if *get {
		if data, e, err := cache.GetBytes(c, id); err != nil {
			fmt.Println("GETBYTES MISS")
		} else {
			fmt.Printf("GETBYTES HIT %x %d %d\n", sha256.Sum256(data), len(data), e.Size)
		}
		if file, e, err := cache.GetFile(c, id); err != nil {
			fmt.Println("GETFILE MISS")
		} else if data, err := os.ReadFile(file); err != nil {
			fmt.Println("GETFILE GONE", err)
		} else {
			fmt.Printf("GETFILE HIT %x %d %d\n", sha256.Sum256(data), len(data), e.Size)
		}
		return
	}
	if *contentKey == "" {
		*contentKey = *key
	}
	s := &src{data: c05.Content(*contentKey, *ver, *n), chunk: *chunk, killAt: *killAt, killPass: *killPass, flipAt: *flipAt}
	out, size, err := c.Put(id, s)
	if err != nil {
		fmt.Println("ERR put:", err)
		os.Exit(3)
	}
	fmt.Printf("DONE %x %d\n", out, size)
	if *readback {
		got, err := os.ReadFile(c.OutputFile(out))
		switch {
		case err != nil:
			fmt.Println("READBACK gone", err)
		case bytes.Equal(got, s.data):
			fmt.Println("READBACK ok")
		case len(got) < len(s.data) && bytes.HasPrefix(s.data, got):
			fmt.Println("READBACK partial", len(got))
		default:
			fmt.Println("READBACK other", len(got))
		}
	}
}
