package c14

import (
	"encoding/json"
	"fmt"
	"os"
	"path/filepath"
	"sort"
	"strings"
	"testing"

	"honnef.co/go/tools/go/ir"
	"pgregory.net/rapid"
	"verif/harness/internal/cfggen"
	"verif/harness/internal/ev"
	"verif/harness/internal/gogen"
	"verif/harness/internal/irbuild"
)

func TestMain(m *testing.M) { ev.Main(m) }

const rule = "case = one built function (generated package: structured nests and goto-drawn digraphs incl. irreducible loops, self loops, dead labels, optional recover block; naive and lifted builder form); oracle = definition of dominance (c unreachable from its root once b is removed), checked for every ordered pair of blocks, plus Idom/Dominees/DomPreorder/DomPostorder consistency; non-trivial = function with >=6 blocks and (an irreducible region or a Recover block or a loop); distinct by hash of the CFG adjacency"

type Case struct {
	Src   string `json:"src"`
	Naive bool   `json:"naive"`
}

// reach returns the set of block indices reachable from root without passing through avoid (-1: none).
func reach(fn *ir.Function, root *ir.BasicBlock, avoid int) []bool {
	seen := make([]bool, len(fn.Blocks))
	if root == nil || root.Index == avoid {
		return seen
	}
	stack := []*ir.BasicBlock{root}
	seen[root.Index] = true
	for len(stack) > 0 {
		b := stack[len(stack)-1]
		stack = stack[:len(stack)-1]
		for _, s := range b.Succs {
			if s.Index != avoid && !seen[s.Index] {
				seen[s.Index] = true
				stack = append(stack, s)
			}
		}
	}
	return seen
}

// irreducible reports whether the CFG has a retreating edge that is not a back edge (target does not dominate source), by definition-based dominance.
func shapeOf(fn *ir.Function, dom [][]bool) (loop, irreducible bool) {
	n := len(fn.Blocks)
	state := make([]int, n)
	var dfs func(b *ir.BasicBlock)
	dfs = func(b *ir.BasicBlock) {
		state[b.Index] = 1
		for _, s := range b.Succs {
			switch state[s.Index] {
			case 0:
				dfs(s)
			case 1: // retreating edge b -> s
				loop = true
				if !dom[s.Index][b.Index] {
					irreducible = true
				}
			}
		}
		state[b.Index] = 2
	}
	dfs(fn.Blocks[0])
	return
}

func checkFunction(fn *ir.Function) (msg string, nontrivial bool, classes []string, hash string) {
	n := len(fn.Blocks)
	var sb strings.Builder
	for i, b := range fn.Blocks {
		if b.Index != i {
			fmt.Fprintf(&sb, "block %d has Index %d\n", i, b.Index)
			return sb.String(), false, nil, ""
		}
	}
	entry := fn.Blocks[0]
	fromEntry := reach(fn, entry, -1)
	var fromRecover []bool
	if fn.Recover != nil {
		fromRecover = reach(fn, fn.Recover, -1)
	} else {
		fromRecover = make([]bool, n)
	}
	rootOf := func(c int) *ir.BasicBlock {
		if fromEntry[c] {
			return entry
		}
		if fromRecover[c] {
			return fn.Recover
		}
		return nil
	}
	// dom[b][c]: b dominates c by definition
	dom := make([][]bool, n)
	avoidE := make([][]bool, n)
	avoidR := make([][]bool, n)
	for b := 0; b < n; b++ {
		avoidE[b] = reach(fn, entry, b)
		if fn.Recover != nil {
			avoidR[b] = reach(fn, fn.Recover, b)
		}
	}
	unreachable := 0
	for b := 0; b < n; b++ {
		dom[b] = make([]bool, n)
		for c := 0; c < n; c++ {
			root := rootOf(c)
			if root == nil {
				continue
			}
			if b == c {
				dom[b][c] = true
				continue
			}
			if root == entry {
				dom[b][c] = !avoidE[b][c]
			} else {
				dom[b][c] = !avoidR[b][c]
			}
		}
	}
	adj := make([]string, n)
	for i, b := range fn.Blocks {
		var ss []string
		for _, s := range b.Succs {
			ss = append(ss, fmt.Sprint(s.Index))
		}
		adj[i] = strings.Join(ss, ",")
	}
	rec := -1
	if fn.Recover != nil {
		rec = fn.Recover.Index
	}
	hash = ev.Hash(strings.Join(adj, ";"), fmt.Sprint(rec))
	for c := 0; c < n; c++ {
		if rootOf(c) == nil {
			unreachable++
		}
	}
	if unreachable > 0 {
		classes = append(classes, "has_unreachable_block")
	}
	for b := 0; b < n; b++ {
		for c := 0; c < n; c++ {
			if rootOf(c) == nil || rootOf(b) == nil {
				continue // the statement speaks about blocks reachable from a root
			}
			got := fn.Blocks[b].Dominates(fn.Blocks[c])
			if got != dom[b][c] {
				fmt.Fprintf(&sb, "Dominates(%d, %d) = %v, by definition %v\n", b, c, got, dom[b][c])
			}
		}
	}
	// immediate dominators
	for c := 0; c < n; c++ {
		if rootOf(c) == nil {
			continue
		}
		var strict []int
		for b := 0; b < n; b++ {
			if b != c && dom[b][c] {
				strict = append(strict, b)
			}
		}
		want := -1
		for _, cand := range strict {
			ok := true
			for _, o := range strict {
				if !dom[o][cand] {
					ok = false
				}
			}
			if ok {
				want = cand
			}
		}
		got := -1
		if id := fn.Blocks[c].Idom(); id != nil {
			got = id.Index
		}
		if got != want {
			fmt.Fprintf(&sb, "Idom(%d) = %d, by definition %d\n", c, got, want)
		}
	}
	// Dominees is the inverse of Idom, without duplicates
	for b := 0; b < n; b++ {
		if rootOf(b) == nil {
			continue
		}
		seen := map[int]bool{}
		for _, ch := range fn.Blocks[b].Dominees() {
			if seen[ch.Index] {
				fmt.Fprintf(&sb, "Dominees(%d) lists %d twice\n", b, ch.Index)
			}
			seen[ch.Index] = true
			if ch.Idom() != fn.Blocks[b] {
				fmt.Fprintf(&sb, "Dominees(%d) contains %d whose Idom is %v\n", b, ch.Index, ch.Idom())
			}
		}
		for c := 0; c < n; c++ {
			if rootOf(c) != nil && fn.Blocks[c].Idom() == fn.Blocks[b] && !seen[c] {
				fmt.Fprintf(&sb, "Idom(%d) = %d but Dominees(%d) lacks it\n", c, b, b)
			}
		}
	}
	// orders
	checkOrder := func(name string, order []*ir.BasicBlock, domFirst bool) {
		pos := make([]int, n)
		for i := range pos {
			pos[i] = -1
		}
		if len(order) != n {
			fmt.Fprintf(&sb, "%s has %d entries for %d blocks\n", name, len(order), n)
			return
		}
		for i, b := range order {
			if pos[b.Index] != -1 {
				fmt.Fprintf(&sb, "%s lists block %d twice\n", name, b.Index)
			}
			pos[b.Index] = i
		}
		for b := 0; b < n; b++ {
			for c := 0; c < n; c++ {
				if b == c || rootOf(b) == nil || rootOf(c) == nil || !dom[b][c] {
					continue
				}
				if domFirst && pos[b] > pos[c] {
					fmt.Fprintf(&sb, "%s: block %d appears before its dominator %d\n", name, c, b)
				}
				if !domFirst && pos[b] < pos[c] {
					fmt.Fprintf(&sb, "%s: block %d appears after its dominator %d\n", name, c, b)
				}
			}
		}
	}
	checkOrder("DomPreorder", fn.DomPreorder(), true)
	checkOrder("DomPostorder", fn.DomPostorder(), false)

	loop, irr := shapeOf(fn, dom)
	if loop {
		classes = append(classes, "has_loop")
	}
	if irr {
		classes = append(classes, "irreducible")
	}
	if fn.Recover != nil {
		classes = append(classes, "has_recover_block")
	}
	if n >= 6 {
		classes = append(classes, "blocks>=6")
	}
	nontrivial = n >= 6 && (irr || fn.Recover != nil || loop)
	if sb.Len() > 0 {
		var cfg strings.Builder
		for i := range fn.Blocks {
			fmt.Fprintf(&cfg, "  %d -> [%s]\n", i, adj[i])
		}
		return fmt.Sprintf("function %s (recover block %d), CFG:\n%s%s", fn.Name(), rec, cfg.String(), sb.String()), nontrivial, classes, hash
	}
	return "", nontrivial, classes, hash
}

func evaluate(c *Case, sample bool) (msg string) {
	mode := ir.BuildSerially
	if c.Naive {
		mode |= ir.NaiveForm
	}
	_, pkg, err := irbuild.BuildOne(c.Src, "go1.26", mode)
	if err != nil {
		ev.Count("gen_invalid", 1)
		return ""
	}
	var sb strings.Builder
	for _, fn := range irbuild.Functions(pkg) {
		if isPrelude(fn) {
			continue
		}
		m, nt, classes, hash := checkFunction(fn)
		ev.Case(hash, nt, classes...)
		ev.Count("block_pairs_checked", len(fn.Blocks)*len(fn.Blocks))
		if nt && sample && ev.WantSample() && (contains(classes, "irreducible") || fn.Recover != nil) {
			var adj []string
			for _, b := range fn.Blocks {
				var ss []int
				for _, s := range b.Succs {
					ss = append(ss, s.Index)
				}
				adj = append(adj, fmt.Sprintf("%d->%v", b.Index, ss))
			}
			ev.Sample(map[string]any{"function": fn.Name(), "cfg": strings.Join(adj, " "), "classes": classes})
		}
		if m != "" {
			sb.WriteString(m)
		}
	}
	return sb.String()
}

// isPrelude reports the fixed helper functions every generated package shares.
func isPrelude(fn *ir.Function) bool {
	for p := fn; p != nil; p = p.Parent() {
		switch p.Name() {
		case "tr", "sink", "two", "iter", "init":
			if p.Parent() == nil {
				return true
			}
		}
	}
	return false
}

func contains(s []string, x string) bool {
	for _, y := range s {
		if x == y {
			return true
		}
	}
	return false
}

func TestDominance(t *testing.T) {
	ev.Rule(rule)
	ev.Assume("blocks unreachable from both the entry and the recover block are outside the statement (counted as has_unreachable_block)")
	cfg := cfggen.Default()
	ev.Check(t, "TestDominance", func(rt *rapid.T) {
		var src string
		if rapid.IntRange(0, 3).Draw(rt, "generator") == 0 {
			src = gogen.Generate(rt, gogen.DefaultConfig()).Src // structured code of the rich generator (range-over-func, defers, type switches)
			ev.Count("generated_by_gogen", 1)
		} else {
			src = cfggen.Generate(rt, cfg).Src
		}
		c := &Case{Src: src, Naive: rapid.IntRange(0, 2).Draw(rt, "naive") == 0}
		b, _ := json.Marshal(c)
		ev.Begin("TestDominance", "json", b)
		if msg := evaluate(c, true); msg != "" {
			ev.Failf(rt, "TestDominance", "dominance queries disagree with the definition (naive=%v)\n%s\nsource:\n%s", c.Naive, msg, c.Src)
		}
	})
}

// TestCorpusSources checks every function of fixed Go sources: the harness
// corpus and go/ir's own testdata.
func TestCorpusSources(t *testing.T) {
	if os.Getenv("VERIF_SECONDARY") != "" {
		return
	}
	var files []string
	for _, pat := range []string{
		filepath.Join(os.Getenv("VERIF_ROOT"), "corpus", "C14", "*.go"),
		filepath.Join(os.Getenv("VERIF_ROOT"), "corpus", "C02", "*.go"),
	} {
		m, _ := filepath.Glob(pat)
		files = append(files, m...)
	}
	sort.Strings(files)
	for _, f := range files {
		src, err := os.ReadFile(f)
		if err != nil {
			continue
		}
		for _, naive := range []bool{false, true} {
			c := &Case{Src: string(src), Naive: naive}
			if msg := evaluate(c, false); msg != "" {
				b, _ := json.Marshal(c)
				ev.Violate("TestCorpusSources", fmt.Sprintf("%s (naive=%v):\n%s", f, naive, msg), "json", b)
				t.Errorf("%s: %s", f, msg)
			}
		}
	}
}

func TestReplay(t *testing.T) {
	f := ev.ReplayFile()
	if f == "" {
		return
	}
	b, err := os.ReadFile(f)
	if err != nil {
		ev.Infra("read %s: %v", f, err)
		return
	}
	var c Case
	if strings.HasSuffix(f, ".go") {
		c.Src = string(b)
	} else if err := json.Unmarshal(b, &c); err != nil {
		ev.Infra("decode %s: %v", f, err)
		return
	}
	if msg := evaluate(&c, false); msg != "" {
		ev.Violate("TestReplay", msg, "json", b)
		t.Errorf("%s", msg)
	} else {
		t.Logf("replay %s: property holds", f)
	}
}
