package c06

import (
	"encoding/json"
	"fmt"
	"os"
	"path/filepath"
	"strings"
	"testing"

	"pgregory.net/rapid"
	"verif/harness/internal/ev"
)

// ---------------------------------------------------------------- packages that fail while they are processed
//
// A package that does not type-check under the -go version of the run (here:
// new(expr), which needs go1.26, under -go 1.25) fails in its package action,
// not while the package graph is built, and its failure is handed on to the
// packages that import it. The generated modules import nothing from the
// standard library, so that such a run costs little even with a cold cache.
// Same oracle as for the other runs: byte-identical output and exit status
// over GOMAXPROCS and schedule seeds, the -race build prints the same, and the
// race detector stays silent.

type FailCase struct {
	Pkgs    []string            `json:"pkgs"`
	Imports map[string][]string `json:"imports"`
	Files   map[string]string   `json:"files"`
	Go      string              `json:"go"`
	Runs    []RunCfg            `json:"runs"`
	Race    []RunCfg            `json:"race"`
}

func genFailCase(rt *rapid.T, race bool) *FailCase {
	c := &FailCase{Imports: map[string][]string{}, Files: map[string]string{"go.mod": "module " + modPath + "\n\ngo 1.26.0\n"}, Go: "1.25"}
	n := rng(rt, "npkgs", 4, 9)
	bad := map[int]bool{}
	for i := 0; i < n; i++ {
		c.Pkgs = append(c.Pkgs, fmt.Sprintf("q%d", i))
		if chance(rt, "needs_go126", 45) {
			bad[i] = true
		}
	}
	// at least two failing packages that a third one imports
	if n >= 3 {
		bad[n-1], bad[n-2] = true, true
	}
	for i := 0; i < n; i++ {
		var imps []string
		for j := i + 1; j < n; j++ {
			if chance(rt, "edge", 45) || (i == 0 && j >= n-2) {
				imps = append(imps, fmt.Sprintf("q%d", j))
			}
		}
		c.Imports[c.Pkgs[i]] = imps
		var sb strings.Builder
		fmt.Fprintf(&sb, "// Package q%d imports nothing from the standard library.\npackage q%d\n\n", i, i)
		if len(imps) > 0 {
			sb.WriteString("import (\n")
			for _, p := range imps {
				fmt.Fprintf(&sb, "\t%q\n", modPath+"/"+p)
			}
			sb.WriteString(")\n\n")
			for _, p := range imps {
				fmt.Fprintf(&sb, "var _ = %s.V\n", p)
			}
		}
		fmt.Fprintf(&sb, "\n// V is exported.\nvar V = same(%d)\n\nfunc same(x int) bool { return x == x }\n\nfunc unused%d() {}\n", i, i)
		if bad[i] {
			sb.WriteString("\n// P needs go1.26 (new with an expression operand).\nvar P = new(3)\n")
		}
		c.Files[fmt.Sprintf("q%d/q.go", i)] = sb.String()
	}
	seed := func() int64 { return int64(rng(rt, "sched_seed", 1, 1<<30)) }
	for _, p := range shuffled(rt, "procs_order", procsDomain)[:4] {
		c.Runs = append(c.Runs, RunCfg{Format: "json", Procs: p, Seed: seed()})
	}
	c.Runs = append(c.Runs, RunCfg{Format: "text", Procs: pick(rt, "text_procs", procsDomain), Seed: seed()}, RunCfg{Format: "text", Procs: pick(rt, "text_procs", procsDomain), Seed: seed()})
	if race {
		for _, p := range []int{2, 4, 16} {
			c.Race = append(c.Race, RunCfg{Format: "json", Procs: p, Seed: seed()})
		}
	}
	return c
}

func evalFailCase(c *FailCase) (msg, infra string) {
	dir, err := os.MkdirTemp("", "c06fail-")
	if err != nil {
		return "", err.Error()
	}
	defer os.RemoveAll(dir)
	for name, src := range c.Files {
		p := filepath.Join(dir, filepath.FromSlash(name))
		os.MkdirAll(filepath.Dir(p), 0o755)
		if err := os.WriteFile(p, []byte(src), 0o644); err != nil {
			return "", err.Error()
		}
	}
	run := func(bin string, cfg RunCfg) (*runResult, error) {
		cache, err := os.MkdirTemp("", "c06failcache-")
		if err != nil {
			return nil, err
		}
		defer os.RemoveAll(cache)
		return runIn(bin, dir, cache, cfg, "-mod=mod", "-tests=false", "-go", c.Go)
	}
	first := map[string]*runResult{}
	failing := 0
	for _, cfg := range c.Runs {
		res, err := run(binPlain, cfg)
		if err != nil {
			return "", err.Error()
		}
		if res.timedOut {
			return fmt.Sprintf("a run over packages that fail under -go %s did not end within %v: %s\n%s", c.Go, res.limit, cfg, dumpSummary(res.stderr)), ""
		}
		if res.exit != 0 && res.exit != 1 {
			return "", fmt.Sprintf("%s: exit status %d\n%s", cfg, res.exit, trunc(res.stderr, 2000))
		}
		failing = strings.Count(res.stdout, "requires go1.26")
		if f, ok := first[cfg.Format]; !ok {
			first[cfg.Format] = res
		} else if f.stdout != res.stdout || f.exit != res.exit {
			return fmt.Sprintf("two runs with -go %s on the same module differ.\nA: %s -> exit %d\nB: %s -> exit %d\n%s", c.Go, f.cfg, f.exit, cfg, res.exit, firstDiff(f.stdout, res.stdout)), ""
		}
	}
	for _, cfg := range c.Race {
		res, err := run(binRace, cfg)
		if err != nil {
			return "", err.Error()
		}
		if res.raced() {
			return fmt.Sprintf("the race detector reported a data race in %s -go %s (packages fail while they are processed):\n%s", cfg, c.Go, trunc(res.stderr, 6000)), ""
		}
		if res.timedOut {
			ev.Count("race_run_over_time_limit", 1)
			continue
		}
		if f := first["json"]; f != nil && (f.stdout != res.stdout || f.exit != res.exit) {
			return fmt.Sprintf("the -race build printed something else than the plain build with -go %s.\nA: %s -> exit %d\nB (race build): %s -> exit %d\n%s", c.Go, f.cfg, f.exit, cfg, res.exit, firstDiff(f.stdout, res.stdout)), ""
		}
	}
	classes := []string{"failing_packages_case", fmt.Sprintf("failing_packages_race_runs_%d", len(c.Race))}
	js, _ := json.Marshal(c.Files)
	ev.Case(ev.Hash("failing", string(js), fmt.Sprint(c.Runs, c.Race)), failing >= 2, classes...)
	ev.Count("compile_problems_from_processing_in_failing_cases", failing)
	return "", ""
}

func TestFailingPackages(t *testing.T) {
	ev.Rule(rule)
	race := ev.Thorough() || ev.NShards() == 1 || ev.Shard()%4 == 2
	n := 0
	ev.Check(t, "TestFailingPackages", func(rt *rapid.T) {
		if n >= ev.EnvInt("C06_FAILING_CASES", 1, 6) || ev.PastDeadline() {
			return
		}
		n++
		c := genFailCase(rt, race)
		js, _ := json.Marshal(c)
		ev.Begin("TestFailingPackages", "fail.json", js)
		msg, infra := evalFailCase(c)
		if infra != "" {
			ev.Infra("TestFailingPackages: %s", infra)
			rt.Skip(infra)
		}
		if msg != "" {
			ev.Failf(rt, "TestFailingPackages", "%s", msg)
		}
	})
}
