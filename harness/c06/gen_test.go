package c06

import (
	"fmt"
	"sort"
	"strings"
	"time"

	"pgregory.net/rapid"
)

// ---------------------------------------------------------------- the case
//
// A case is a self-contained module (all files written out) plus the plan of
// staticcheck invocations that are compared with each other. The same JSON is
// the replay / corpus format.

const modPath = "example.com/m"

// RunCfg is one invocation of staticcheck on the module.
type RunCfg struct {
	Format   string   `json:"format"`             // json | text | stylish | sarif | binary
	Procs    int      `json:"procs"`              // GOMAXPROCS of the child
	Seed     int64    `json:"seed,omitempty"`     // VERIF_SCHED_SEED (hook H1); 0 = not set
	Patterns []string `json:"patterns,omitempty"` // default ./...

	limit time.Duration // time limit of the run (0: default of the binary); not part of the replay
}

func (r RunCfg) String() string {
	p := "./..."
	if len(r.Patterns) > 0 {
		p = strings.Join(r.Patterns, " ")
	}
	return fmt.Sprintf("GOMAXPROCS=%d VERIF_SCHED_SEED=%d staticcheck -f %s %s", r.Procs, r.Seed, r.Format, p)
}

// SubsetCfg names packages explicitly, in two drawn orders / spellings.
type SubsetCfg struct {
	Pkgs  []string `json:"pkgs"`  // distinct packages named (directory names); empty with Dots
	Dots  bool     `json:"dots"`  // the pattern list contains ./... (all packages are named)
	Args  []string `json:"args"`  // first pattern list (drawn order, spellings, duplicates)
	Args2 []string `json:"args2"` // the same set in another order
	Procs int      `json:"procs"`
	Seed  int64    `json:"seed,omitempty"`
}

type Case struct {
	Module  string              `json:"module"`
	Pkgs    []string            `json:"pkgs"`    // directory names, index order
	Imports map[string][]string `json:"imports"` // package -> imported module packages (non-test files)
	Files   map[string]string   `json:"files"`   // path relative to the module root -> content
	Tests   bool                `json:"tests"`   // value of -tests for every run of the case
	Det     []RunCfg            `json:"det"`     // runs whose stdout must agree per format
	Singles []string            `json:"singles"` // packages analysed alone
	SProcs  int                 `json:"sprocs"`  // GOMAXPROCS of the single-package runs
	Subsets []SubsetCfg         `json:"subsets"`
	Race    []RunCfg            `json:"race"`             // runs of the -race build
	Repeat  int                 `json:"repeat,omitempty"` // replay only: evaluate the plan this many times
	Note    string              `json:"note,omitempty"`   // what was observed when the case was saved
}

// ---------------------------------------------------------------- drawing helpers

func rng(rt *rapid.T, label string, lo, hi int) int {
	if hi <= lo {
		return lo
	}
	return rapid.IntRange(lo, hi).Draw(rt, label)
}

func chance(rt *rapid.T, label string, percent int) bool {
	return rng(rt, label, 0, 99) < percent
}

func pick[T any](rt *rapid.T, label string, xs []T) T {
	return xs[rng(rt, label, 0, len(xs)-1)]
}

func shuffled[T any](rt *rapid.T, label string, xs []T) []T {
	out := append([]T(nil), xs...)
	for i := len(out) - 1; i > 0; i-- {
		j := rng(rt, label, 0, i)
		out[i], out[j] = out[j], out[i]
	}
	return out
}

// ---------------------------------------------------------------- local problem templates
//
// "@" is replaced by a unique suffix. Which problems a template produces is
// not written down: every oracle compares real runs with real runs. The codes
// in the names only say what the template is meant to trigger.

type tmpl struct {
	name   string
	errors bool // needs import "errors"
	src    string
}

var localTemplates = []tmpl{
	{"sa4000", false, `
// L@ compares a value with itself.
func L@(x int) int {
	if x == x {
		return 1
	}
	return 0
}`},
	{"sa4000_ignored", false, `
// L@ compares a value with itself, suppressed.
func L@(x int) int {
	//lint:ignore SA4000 generated on purpose
	if x != x {
		return 1
	}
	return 0
}`},
	{"s1002", false, `
// L@ compares with a constant.
func L@(b bool) int {
	if b == true {
		return 1
	}
	return 0
}`},
	{"twin_line", false, `
// L@ has two problems on one line.
func L@(x int, b bool) int {
	if b == true && x == x {
		return 1
	}
	return 0
}`},
	{"st1005", true, `
// L@ returns an error.
func L@() error {
	return errors.New("Capital letter @.")
}`},
	{"st1005_glob_ignored", true, `
// L@ returns an error, suppressed by a glob.
func L@() error {
	//lint:ignore ST1* generated on purpose
	return errors.New("Capital letter @")
}`},
	{"useless_directive", false, `
// L@ carries a directive that matches nothing.
func L@(x int) int {
	//lint:ignore S1002 nothing to suppress here
	return x + 1
}`},
	{"sa4006", false, `
// L@ overwrites a value.
func L@() int {
	v := Counter$()
	v = Counter$()
	return v
}`},
	{"sa4003", false, `
// L@ compares an unsigned value with zero.
func L@(u uint) int {
	if u < 0 {
		return 1
	}
	return 0
}`},
	{"sa4013", false, `
// L@ negates twice.
func L@(b bool) bool {
	return !!b
}`},
	{"sa4018", false, `
// L@ assigns a variable to itself.
func L@(x int) int {
	x = x
	return x
}`},
	{"s1005", false, `
// L@ ranges with a blank value.
func L@(xs []int) int {
	n := 0
	for i, _ := range xs {
		n += i
	}
	return n
}`},
	{"s1009", false, `
// L@ checks nil before len.
func L@(xs []int) int {
	if xs != nil && len(xs) > 0 {
		return 1
	}
	return 0
}`},
	{"s1021", false, `
// L@ declares and assigns separately.
func L@(x int) int {
	var y int
	y = x * 2
	return y
}`},
	{"s1023", false, `
// L@ ends with a redundant return.
func L@(p *int) {
	*p = 1
	return
}`},
	{"st1006", false, `
// T@ has a badly named receiver.
type T@ struct{ N int }

// Get returns N.
func (this *T@) Get() int { return this.N }`},
	{"st1012", true, `
// Oops@ is an error value with a non-conventional name.
var Oops@ = errors.New("oops @")`},
	{"st1017", false, `
// L@ is a yoda condition.
func L@(x int) int {
	if 1 == x {
		return 1
	}
	return 0
}`},
	{"u_func", false, `
func unusedFunc@() int { return 1 }`},
	{"u_func_ignored", false, `
//lint:ignore U1000 kept on purpose
func keptFunc@() int { return 1 }`},
	{"u_const", false, `
const unusedConst@ = 1`},
	{"u_var", false, `
var unusedVar@ = 2`},
	{"u_type", false, `
type unusedType@ struct{ a, b int }

func (unusedType@) method() {}`},
	{"u_field", false, `
// S@ has a field nobody reads or writes.
type S@ struct {
	Used   int
	unused int
}`},
	{"u_chain", false, `
func unusedA@() int { return unusedB@() }

func unusedB@() int { return 3 }`},
	{"u_iface", false, `
type iface@ interface{ m@() }

type impl@ struct{}

func (impl@) m@() {}

// V@ keeps impl@ reachable through the interface.
var V@ iface@ = impl@{}`},
}

// ---------------------------------------------------------------- the generator

type genPkg struct {
	idx      int
	name     string
	imports  []int        // imported module packages (indices, ascending)
	chainP   int          // package whose Pure the own Pure calls (-1: none)
	chainG   int          // package whose Get the own Get returns (-1: none)
	uses     map[int]uses // features used per imported package
	locals   [][]int      // template indices per extra file
	tests    bool         // has an in-package test file
	xtest    bool         // has an external test package
	xtestImp int          // an importer of this package that the external test imports (-1: none)
	conf     string       // staticcheck.conf content ("" = none)
	fileIgn  bool
}

type uses struct{ pure, impure, get, maybe, old, box bool }

func (u uses) facts() int {
	n := 0
	for _, b := range []bool{u.pure, u.get, u.old} {
		if b {
			n++
		}
	}
	return n
}

// genModule draws the packages, the import DAG (package i imports only
// packages with a larger index) and renders all files.
func genModule(rt *rapid.T, c *Case, maxPkgs int) {
	n := rng(rt, "npkgs", 5, maxPkgs)
	pkgs := make([]*genPkg, n)
	for i := range pkgs {
		pkgs[i] = &genPkg{idx: i, name: fmt.Sprintf("p%d", i), chainP: -1, chainG: -1, xtestImp: -1, uses: map[int]uses{}}
	}
	edge := make([][]bool, n)
	for i := range edge {
		edge[i] = make([]bool, n)
	}
	// one diamond by construction: a -> b, a -> c, b -> d, c -> d with a < b < c < d
	four := shuffled(rt, "diamond", seq(n))[:4]
	sort.Ints(four)
	a, b, cc, d := four[0], four[1], four[2], four[3]
	edge[a][b], edge[a][cc], edge[b][d], edge[cc][d] = true, true, true, true
	density := rng(rt, "density", 5, 45)
	for i := 0; i < n; i++ {
		for j := i + 1; j < n; j++ {
			if !edge[i][j] && chance(rt, "edge", density) {
				edge[i][j] = true
			}
		}
	}
	// b and c of the diamond stay independent so that two package actions of
	// the module can always run concurrently
	edge[b][cc] = false
	for i, p := range pkgs {
		for j := i + 1; j < n; j++ {
			if edge[i][j] {
				p.imports = append(p.imports, j)
			}
		}
		for _, j := range p.imports {
			u := uses{
				pure:   chance(rt, "use_pure", 60),
				impure: chance(rt, "use_impure", 30),
				get:    chance(rt, "use_get", 60),
				maybe:  chance(rt, "use_maybe", 30),
				old:    chance(rt, "use_old", 60),
				box:    chance(rt, "use_box", 30),
			}
			if (i == a || i == b || i == cc) && u.facts() == 0 {
				u.pure, u.old = true, true // facts cross the edges of the diamond by construction
			}
			p.uses[j] = u
		}
		if len(p.imports) > 0 && chance(rt, "chain_pure", 50) {
			p.chainP = pick(rt, "chain_pure_pkg", p.imports)
		}
		if len(p.imports) > 0 && chance(rt, "chain_get", 40) {
			p.chainG = pick(rt, "chain_get_pkg", p.imports)
		}
		nfiles := rng(rt, "nlocalfiles", 1, 2)
		for f := 0; f < nfiles; f++ {
			k := rng(rt, "nlocals", 2, 6)
			var ts []int
			for x := 0; x < k; x++ {
				ts = append(ts, rng(rt, "tmpl", 0, len(localTemplates)-1))
			}
			p.locals = append(p.locals, ts)
		}
		p.tests = chance(rt, "has_tests", 55)
		p.xtest = chance(rt, "has_xtest", 30)
		p.fileIgn = chance(rt, "file_ignore", 30)
		switch rng(rt, "conf", 0, 9) {
		case 0:
			p.conf = "checks = [\"inherit\", \"-S1002\"]\n"
		case 1:
			p.conf = "checks = [\"all\", \"-ST1000\", \"-SA4000\"]\n"
		case 2:
			p.conf = "checks = [\"all\"]\n"
		}
	}
	// an external test may import a package that imports the package under
	// test: go list then holds a second, test-only variant of the importer
	for i, p := range pkgs {
		if !p.xtest {
			continue
		}
		var importers []int
		for k := 0; k < i; k++ {
			if edge[k][i] {
				importers = append(importers, k)
			}
		}
		if len(importers) > 0 && chance(rt, "xtest_imports_importer", 50) {
			p.xtestImp = pick(rt, "xtest_importer", importers)
		}
	}

	c.Module = modPath
	c.Files = map[string]string{"go.mod": "module " + modPath + "\n\ngo 1.26.0\n"}
	c.Imports = map[string][]string{}
	for _, p := range pkgs {
		c.Pkgs = append(c.Pkgs, p.name)
		c.Imports[p.name] = []string{}
		for _, j := range p.imports {
			c.Imports[p.name] = append(c.Imports[p.name], pkgs[j].name)
		}
		renderPkg(c, p, pkgs)
	}
	// two packages with the same package name, the same file name and the same object on the
	// same line, which only one of them uses (two commands of a repository look like this)
	if chance(rt, "twins", 60) {
		for k, call := range []string{" + helper()", ""} {
			name := fmt.Sprintf("tw%d", k)
			c.Pkgs = append(c.Pkgs, name)
			c.Imports[name] = []string{}
			c.Files[name+"/t.go"] = "// Package twin exists twice.\npackage twin\n\n// Entry is exported.\nfunc Entry() int { return 0" + call + " }\n\nfunc helper() int { return 1 }\n"
		}
	}
}

func seq(n int) []int {
	out := make([]int, n)
	for i := range out {
		out[i] = i
	}
	return out
}

func renderPkg(c *Case, p *genPkg, pkgs []*genPkg) {
	I := fmt.Sprint(p.idx)
	imp := func(idxs map[int]bool, errs bool) string {
		var lines []string
		if errs {
			lines = append(lines, "\t\"errors\"")
		}
		var ks []int
		for k := range idxs {
			ks = append(ks, k)
		}
		sort.Ints(ks)
		if errs && len(ks) > 0 {
			lines = append(lines, "")
		}
		for _, k := range ks {
			lines = append(lines, fmt.Sprintf("\t%q", modPath+"/"+pkgs[k].name))
		}
		if len(lines) == 0 {
			return ""
		}
		return "import (\n" + strings.Join(lines, "\n") + "\n)\n\n"
	}

	// ---- a.go: the exported surface other packages build facts about
	var sb strings.Builder
	need := map[int]bool{}
	pureBody := "return x * 2"
	if p.chainP >= 0 {
		need[p.chainP] = true
		pureBody = fmt.Sprintf("return p%d.Pure%d(x) + 1", p.chainP, p.chainP)
	}
	getBody := "var e *E" + I + "\n\treturn e"
	if p.chainG >= 0 {
		need[p.chainG] = true
		getBody = fmt.Sprintf("return p%d.Get%d()", p.chainG, p.chainG)
	}
	sb.WriteString("// Package p" + I + " is generated.\npackage p" + I + "\n\n")
	sb.WriteString(imp(need, false))
	sb.WriteString(strings.ReplaceAll(`// E@ is an error type.
type E@ struct {
	Code   int
	hidden int
}

func (*E@) Error() string { return "e@" }

// Box@ is a generic container.
type Box@[T any] struct {
	V     T
	spare T
}

// Get returns the value.
func (b Box@[T]) Get() T { return b.V }

// Old@ is the old entry point.
//
// Deprecated: use Pure@.
func Old@() int { return @ }

// Pure@ has no side effects.
func Pure@(x int) int {
	PUREBODY
}

// Get@ never returns a nil interface value.
func Get@() error {
	GETBODY
}

var counter@ int

// Counter@ has a side effect.
func Counter@() int {
	counter@++
	return counter@
}

// Maybe@ may return nil.
func Maybe@(x int) error {
	if x > 0 {
		return nil
	}
	return &E@{Code: x}
}

func onlyTest@() int { return @ }
`, "@", I))
	src := sb.String()
	src = strings.Replace(src, "PUREBODY", pureBody, 1)
	src = strings.Replace(src, "GETBODY", getBody, 1)
	c.Files[p.name+"/a.go"] = src

	// ---- b.go: uses of the imported packages (problems that need facts of dependencies)
	if len(p.imports) > 0 {
		sb.Reset()
		need = map[int]bool{}
		var body strings.Builder
		for _, j := range p.imports {
			need[j] = true
			u := p.uses[j]
			J := fmt.Sprint(j)
			fmt.Fprintf(&body, "// Use%sx%s uses package p%s.\nfunc Use%sx%s(x int) int {\n", I, J, J, I, J)
			if u.pure {
				fmt.Fprintf(&body, "\tp%s.Pure%s(x)\n", J, J)
			}
			if u.impure {
				fmt.Fprintf(&body, "\tp%s.Counter%s()\n", J, J)
			}
			if u.get {
				fmt.Fprintf(&body, "\tif p%s.Get%s() != nil {\n\t\tx++\n\t}\n", J, J)
			}
			if u.maybe {
				fmt.Fprintf(&body, "\tif p%s.Maybe%s(x) != nil {\n\t\tx++\n\t}\n", J, J)
			}
			if u.old {
				fmt.Fprintf(&body, "\tx += p%s.Old%s()\n", J, J)
			}
			if u.box {
				fmt.Fprintf(&body, "\tvar b p%s.Box%s[int]\n\tx += b.Get()\n", J, J)
			}
			fmt.Fprintf(&body, "\treturn x + p%s.Pure%s(x)\n}\n\n", J, J)
		}
		sb.WriteString("package p" + I + "\n\n" + imp(need, false) + body.String())
		c.Files[p.name+"/b.go"] = sb.String()
	}

	// ---- c.go, d.go: local problems
	for f, ts := range p.locals {
		sb.Reset()
		errs := false
		var body strings.Builder
		for x, ti := range ts {
			t := localTemplates[ti]
			errs = errs || t.errors
			s := strings.ReplaceAll(t.src, "@", fmt.Sprintf("%sx%dx%d", I, f, x))
			s = strings.ReplaceAll(s, "$", I)
			body.WriteString(strings.TrimPrefix(s, "\n") + "\n\n")
		}
		if f == 0 && p.fileIgn {
			sb.WriteString("//lint:file-ignore ST1005,SA4000 generated on purpose\n\n") // overlaps with the line directives of the templates sa4000_ignored and st1005_glob_ignored
		}
		sb.WriteString("package p" + I + "\n\n" + imp(nil, errs) + body.String())
		c.Files[fmt.Sprintf("%s/%c.go", p.name, 'c'+f)] = sb.String()
	}

	// ---- s.go: the same unexported names on the same lines in every package
	// (used by the in-package test where there is one, unused elsewhere)
	c.Files[p.name+"/s.go"] = "package p" + I + `

func sharedName() int { return 1 }

type sharedType struct{ f int }

var sharedVar = 3
`

	// ---- tests
	if p.tests {
		c.Files[p.name+"/a_test.go"] = strings.ReplaceAll(`package p@

// FromTest@ is exported and therefore used.
var FromTest@ = onlyTest@() + helper@() + sharedName() + sharedType{}.f + sharedVar

func helper@() int { return 1 }

func unusedInTest@() int { return 2 }
`, "@", I)
	}
	if p.xtest {
		need = map[int]bool{p.idx: true}
		extra := ""
		if p.xtestImp >= 0 {
			need[p.xtestImp] = true
			K := fmt.Sprint(p.xtestImp)
			extra = fmt.Sprintf("\nvar viaImporter%s = p%s.Use%sx%s(1)\n", I, K, K, I)
		}
		c.Files[p.name+"/x_test.go"] = "package p" + I + "_test\n\n" + imp(need, false) +
			strings.ReplaceAll("var fromXTest@ = p@.Pure@(1)\n\nfunc unusedInXTest@() int { return p@.Old@() }\n", "@", I) + extra
	}
	if p.conf != "" {
		c.Files[p.name+"/staticcheck.conf"] = p.conf
	}
}

// ---------------------------------------------------------------- the plan of runs

var procsDomain = []int{1, 2, 3, 4, 8, 16}

func spell(rt *rapid.T, pkg string) string {
	if chance(rt, "spell_path", 40) {
		return modPath + "/" + pkg
	}
	return "./" + pkg
}

// genPlan draws the invocations. knobs: nrep extra json repetitions, nfmt
// runs per secondary format, nsingles packages analysed alone, nsubsets
// subsets of those (all non-empty subsets when allSubsets).
func genPlan(rt *rapid.T, c *Case, nrep, nfmt, nsingles, nsubsets int, allSubsets bool, race bool) {
	seed := func() int64 { return int64(rng(rt, "sched_seed", 1, 1<<30)) }
	// quick tier (nrep <= 1): three of the six GOMAXPROCS values, so that the other clauses get their turn within the budget
	jsonProcs := shuffled(rt, "procs_order", procsDomain)
	if nrep <= 1 {
		jsonProcs = jsonProcs[:3]
	}
	for _, p := range jsonProcs {
		c.Det = append(c.Det, RunCfg{Format: "json", Procs: p, Seed: seed()})
	}
	for i := 0; i < nrep; i++ {
		c.Det = append(c.Det, RunCfg{Format: "json", Procs: pick(rt, "rep_procs", procsDomain), Seed: seed()})
	}
	for _, f := range []string{"text", "stylish", "sarif", "binary"} {
		ps := shuffled(rt, "fmt_procs", procsDomain)
		k := nfmt
		if f == "sarif" || f == "binary" {
			k = min(2, nfmt)
		}
		if k > len(ps) {
			k = len(ps)
		}
		for _, p := range ps[:k] {
			c.Det = append(c.Det, RunCfg{Format: f, Procs: p, Seed: seed()})
		}
	}

	// packages analysed alone, and subsets of them
	order := shuffled(rt, "single_order", c.Pkgs)
	if nsingles > len(order) {
		nsingles = len(order)
	}
	c.Singles = append([]string(nil), order[:nsingles]...)
	// the twin that does not use its helper is always analysed alone as well
	hasTwin, inSingles := false, false
	for _, p := range c.Pkgs {
		hasTwin = hasTwin || p == "tw1"
	}
	for _, p := range c.Singles {
		inSingles = inSingles || p == "tw1"
	}
	if hasTwin && !inSingles && len(c.Singles) > 0 {
		c.Singles[len(c.Singles)-1] = "tw1"
	}
	sort.Strings(c.Singles)
	c.SProcs = pick(rt, "single_procs", procsDomain)
	mk := func(set []string, dots bool) SubsetCfg {
		s := SubsetCfg{Pkgs: append([]string(nil), set...), Dots: dots, Procs: pick(rt, "subset_procs", procsDomain), Seed: seed()}
		var args []string
		for _, p := range shuffled(rt, "subset_order", set) {
			args = append(args, spell(rt, p))
		}
		if dots {
			dd := "./..."
			if chance(rt, "dots_path", 30) {
				dd = modPath + "/..."
			}
			at := rng(rt, "dots_at", 0, len(args))
			args = append(args[:at], append([]string{dd}, args[at:]...)...)
		}
		if len(args) > 0 && chance(rt, "dup_pattern", 35) {
			at := rng(rt, "dup_at", 0, len(args))
			dup := args[rng(rt, "dup_which", 0, len(args)-1)]
			args = append(args[:at], append([]string{dup}, args[at:]...)...)
		}
		s.Args = args
		// second spelling: every named package once, another order
		if allSubsets || chance(rt, "second_order", 50) {
			var args2 []string
			for _, p := range shuffled(rt, "subset_order2", set) {
				args2 = append(args2, spell(rt, p))
			}
			if dots {
				args2 = append(args2, "./...")
			}
			s.Args2 = args2
		}
		return s
	}
	if allSubsets {
		k := len(c.Singles)
		for mask := 1; mask < 1<<k; mask++ {
			var set []string
			for i := 0; i < k; i++ {
				if mask&(1<<i) != 0 {
					set = append(set, c.Singles[i])
				}
			}
			if len(set) < 2 {
				continue
			}
			c.Subsets = append(c.Subsets, mk(set, false))
		}
		c.Subsets = append(c.Subsets, mk(c.Singles[:1], true))
	} else {
		for i := 0; i < nsubsets; i++ {
			dots := i == nsubsets-1 && chance(rt, "subset_dots", 60)
			k := rng(rt, "subset_size", 2, len(c.Singles))
			if dots {
				k = rng(rt, "subset_size_dots", 0, 2)
			}
			set := append([]string(nil), shuffled(rt, "subset_pick", c.Singles)[:k]...)
			sort.Strings(set)
			c.Subsets = append(c.Subsets, mk(set, dots))
		}
	}

	if race {
		for _, p := range []int{4, 16} {
			c.Race = append(c.Race, RunCfg{Format: "json", Procs: p, Seed: seed()})
		}
	}
}

// ---------------------------------------------------------------- structural facts used by the non-trivial rule

// concurrentPair reports whether two packages of the module are unordered by
// the import relation (their package actions may run at the same time).
func (c *Case) concurrentPair() bool {
	reach := map[string]map[string]bool{}
	var dfs func(p string) map[string]bool
	dfs = func(p string) map[string]bool {
		if r, ok := reach[p]; ok {
			return r
		}
		r := map[string]bool{}
		reach[p] = r
		for _, q := range c.Imports[p] {
			r[q] = true
			for x := range dfs(q) {
				r[x] = true
			}
		}
		return r
	}
	for _, p := range c.Pkgs {
		dfs(p)
	}
	for i, p := range c.Pkgs {
		for _, q := range c.Pkgs[i+1:] {
			if !reach[p][q] && !reach[q][p] {
				return true
			}
		}
	}
	return false
}

func (c *Case) hasDiamond() bool {
	for _, a := range c.Pkgs {
		seen := map[string]int{}
		for _, b := range c.Imports[a] {
			for _, d := range c.Imports[b] {
				seen[d]++
			}
		}
		for _, n := range seen {
			if n >= 2 {
				return true
			}
		}
	}
	return false
}

func (c *Case) edges() int {
	n := 0
	for _, v := range c.Imports {
		n += len(v)
	}
	return n
}
