// Package c06 checks property C06: for fixed inputs staticcheck prints the
// same problems, byte for byte, on every run, whatever GOMAXPROCS and the
// scheduling of package and analyzer actions; the problems of a package do not
// depend on the other packages named; no run contains a data race.
package c06

import (
	"encoding/json"
	"fmt"
	"os"
	"path/filepath"
	"sort"
	"strings"
	"sync"
	"testing"
	"time"

	"pgregory.net/rapid"
	"verif/harness/internal/ev"
)

func TestMain(m *testing.M) { ev.Main(m) }

const rule = "case = a generated module example.com/m of 5-12 packages (package i imports packages with a larger index; one diamond a->b, a->c, b->d, c->d by construction, further edges with a drawn density of 5-45%) plus a plan of staticcheck invocations. Every package exports a deprecated function, a pure function (optionally defined through the pure function of an import), a function that never returns a nil interface (optionally by returning the result of an import's), an impure and a maybe-nil control, a generic type; importers call them so that SA1019, SA4017 and SA4023 need facts of the dependency; 1-2 files with 2-6 local templates each (SA4000, S1002, both on one line, ST1005, SA4006, SA4003, SA4013, SA4018, S1005, S1009, S1021, S1023, ST1006, ST1012, ST1017, unused func/const/var/type/field/chain, interface-kept method, //lint:ignore by id and by glob, a useless directive, //lint:ignore U1000), optional //lint:file-ignore, optional staticcheck.conf (inherit,-S1002 | all,-ST1000,-SA4000 | all), optional in-package test (uses a function nothing else uses), optional external test (optionally importing an importer of the package under test); in 60% of the modules two further packages with the same package name, file name and an unexported function on the same line that only one of them uses. A second family (TestFailingPackages) are std-free modules of 4-9 packages of which some need go1.26, run with -go 1.25: they fail while they are processed and hand their failure on to their importers. Plan: (i) -f json at every GOMAXPROCS in {1,2,3,4,8,16} (quick tier: three drawn values) plus repetitions, -f text/stylish/sarif/binary at drawn GOMAXPROCS, each run with its own VERIF_SCHED_SEED: stdout and exit status must be byte-identical per format; (ii) drawn packages analysed alone and drawn subsets of them named explicitly (two orders, ./p or full import path, duplicated patterns, ./... mixed in): the problems located in the files of p must equal those of the run of p alone, and those of ./...; (iii) the -race build on the same module at GOMAXPROCS 4 and 16 must not report a race and must print the same bytes. -tests is drawn per case and fixed. One evaluation = one compared pair of runs; non-trivial = the two runs differ in GOMAXPROCS (or in the seed when the binary has the scheduling hook), the module has >= 3 packages of which two are unordered by imports, and the output contains >= 1 problem that needs a fact of another package (SA1019/SA4017/SA4023 are only generated across package edges); for subset pairs additionally >= 2 packages are named; distinct by (module hash, configuration pair)"

// signatures of the two order-noise defects of formats outside the three line-oriented ones
const (
	sigSarif  = "sarif-rules-in-map-order"
	sigBinary = "binary-results-in-map-order"
)

type verdict struct {
	msg     string // violation ("" = the property held on this case)
	reduced *Case  // replay reduced to the failing comparison
	infra   string
	invalid string
}

// failure memo: a violation that depends on the schedule may not show again
// when rapid re-runs the same case while shrinking; a case that was seen
// failing once in this process fails again with the recorded observation.
var (
	memoMu sync.Mutex
	memo   = map[string]*verdict{}
)

type evalOpts struct {
	test string
}

func caseHash(c *Case) string {
	var names []string
	for n := range c.Files {
		names = append(names, n)
	}
	sort.Strings(names)
	parts := []string{fmt.Sprint(c.Tests)}
	for _, n := range names {
		parts = append(parts, n, c.Files[n])
	}
	return ev.Hash(parts...)
}

func cfgKey(r RunCfg, hook bool) string {
	s := fmt.Sprintf("%s/%d/%s", r.Format, r.Procs, strings.Join(r.Patterns, " "))
	if hook {
		s += fmt.Sprintf("/seed%d", r.Seed)
	}
	return s
}

// evaluate runs the plan of the case and compares.
func evaluate(c *Case) *verdict {
	v := &verdict{}
	dir, err := os.MkdirTemp("", "c06mod-")
	if err != nil {
		v.infra = err.Error()
		return v
	}
	defer os.RemoveAll(dir)
	if err := writeModule(c, dir); err != nil {
		v.infra = err.Error()
		return v
	}
	hook := hookOn()
	mh := caseHash(c)
	graphOK := len(c.Pkgs) >= 3 && c.concurrentPair()
	testsClass := "tests_off"
	if c.Tests {
		testsClass = "tests_on"
	}
	reduce := func(note string, f func(r *Case)) {
		r := *c
		r.Det, r.Singles, r.Subsets, r.Race = nil, nil, nil, nil
		r.Repeat = 5
		r.Note = trunc(note, 3000)
		f(&r)
		v.reduced = &r
	}

	// ---- (i) byte-identical output per format
	base := map[string]*runResult{}
	var baseJSON *parsed
	crossFacts := 0
	// detStage runs the determinism runs selected by want; it returns true when the evaluation ends
	detStage := func(want func(format string) bool) bool {
		for _, cfg := range c.Det {
			if !want(cfg.Format) {
				continue
			}
			if ev.PastDeadline() {
				return true
			}
			res, err := staticcheck(binPlain, dir, c.Tests, cfg)
			if err != nil {
				v.infra = err.Error()
				return true
			}
			b, ok := base[cfg.Format]
			if res.timedOut {
				other := b
				if other == nil {
					other = base["json"]
				}
				if other == nil {
					v.infra = fmt.Sprintf("%s: the first run on the module did not end within %v (machine overloaded?); goroutine dump after SIGQUIT:\n%s", cfg, res.limit, dumpSummary(res.stderr))
					return true
				}
				v.msg = hangMsg(c, res, other)
				reduce(v.msg, func(r *Case) { r.Det = []RunCfg{other.cfg, cfg} })
				return true
			}
			if !ok {
				base[cfg.Format] = res
				if res.exit != 0 && res.exit != 1 {
					v.invalid = fmt.Sprintf("%s: exit status %d\nstderr: %s", cfg, res.exit, trunc(res.stderr, 2000))
					return true
				}
				if cfg.Format == "json" {
					baseJSON, err = parseJSON(res.stdout, dir)
					if err != nil {
						v.invalid = err.Error()
						return true
					}
					if baseJSON.codes["compile"] > 0 || baseJSON.codes["config"] > 0 {
						v.invalid = "the generated module does not compile:\n" + trunc(res.stdout, 2000)
						return true
					}
					crossFacts = baseJSON.crossFactProblems()
					nprob := 0
					for _, n := range baseJSON.codes {
						nprob += n
					}
					ev.Count("modules", 1)
					ev.Count("problems_in_baselines", nprob)
					ev.Count("fact_dependent_problems_in_baselines", crossFacts)
					ev.Count("u1000_problems_in_baselines", baseJSON.codes["U1000"])
					ev.Count(fmt.Sprintf("module_pkgs_%02d", len(c.Pkgs)), 1)
					if c.hasDiamond() {
						ev.Count("modules_with_diamond", 1)
					}
					if !graphOK {
						ev.Count("modules_without_concurrent_pair", 1)
					}
					if crossFacts == 0 {
						ev.Count("modules_without_fact_dependent_problem", 1)
					}
				}
				if strings.TrimSpace(res.stderr) != "" {
					ev.Count("runs_with_stderr_output", 1)
				}
				continue
			}
			differs := cfg.Procs != b.cfg.Procs || (hook && cfg.Seed != b.cfg.Seed)
			classes := []string{"pair_determinism", "fmt_" + cfg.Format, fmt.Sprintf("procs_%02d", cfg.Procs),
				fmt.Sprintf("pair_procs_%02d_vs_%02d", b.cfg.Procs, cfg.Procs), testsClass}
			if cfg.Procs == b.cfg.Procs {
				classes = append(classes, "pair_same_procs_repetition")
			}
			if hook {
				classes = append(classes, "pair_seeded_yields")
			} else {
				classes = append(classes, "pair_seed_ignored_no_hook")
			}
			ev.Case(ev.Hash(mh, "det", cfgKey(b.cfg, hook), cfgKey(cfg, hook)), graphOK && crossFacts > 0 && differs, classes...)
			if res.exit == b.exit && res.stdout == b.stdout {
				continue
			}
			// known order noise of the two structured formats: only the order differs
			if res.exit == b.exit && (cfg.Format == "sarif" || cfg.Format == "binary") {
				norm, sig := normSarif, sigSarif
				if cfg.Format == "binary" {
					norm, sig = normBinary, sigBinary
				}
				na, erra := norm(b.stdout)
				nb, errb := norm(res.stdout)
				if erra == nil && errb == nil && na == nb && ev.IsKnown(sig) {
					ev.KnownFinding(sig, "")
					ev.Count("known_order_noise_"+cfg.Format, 1)
					continue
				}
				if erra == nil && errb == nil && na == nb {
					v.msg = fmt.Sprintf("[%s] -f %s is not byte-identical between two runs on the same module; the two outputs are equal after sorting (sarif: the rules array; binary: checked files and diagnostics), i.e. only an order differs.\nA: %s\nB: %s\n%s",
						sig, cfg.Format, b.cfg, cfg, firstDiff(b.stdout, res.stdout))
					reduce(v.msg, func(r *Case) { r.Det = []RunCfg{b.cfg, cfg} })
					return true
				}
			}
			v.msg = fmt.Sprintf("stdout/exit status of two runs on the same module differ (-tests=%v).\nA: %s -> exit %d, %d bytes\nB: %s -> exit %d, %d bytes\n%s\nstderr A: %s\nstderr B: %s",
				c.Tests, b.cfg, b.exit, len(b.stdout), cfg, res.exit, len(res.stdout), firstDiff(b.stdout, res.stdout), trunc(b.stderr, 1500), trunc(res.stderr, 1500))
			reduce(v.msg, func(r *Case) { r.Det = []RunCfg{b.cfg, cfg} })
			return true
		}
		return false
	}
	if detStage(func(f string) bool { return f == "json" }) {
		return v
	}

	// ---- (iii) the race detector
	for _, cfg := range c.Race {
		if ev.PastDeadline() {
			return v
		}
		if _, err := stdRace.get(); err != nil {
			v.infra = "std-only cache of the race build: " + err.Error()
			return v
		}
		if msg, rc := warmViolation(); msg != "" {
			v.msg, v.reduced = msg, rc
			return v
		}
		res, err := staticcheck(binRace, dir, c.Tests, cfg)
		if err != nil {
			v.infra = err.Error()
			return v
		}
		ev.Case(ev.Hash(mh, "race", cfgKey(cfg, hook)), graphOK && crossFacts > 0 && cfg.Procs >= 2,
			"race_run", fmt.Sprintf("race_procs_%02d", cfg.Procs), testsClass)
		ev.Count("race_run_wall_ms", int(res.wall.Milliseconds()))
		if res.timedOut && !res.raced() {
			v.msg = hangMsg(c, res, base["json"])
			reduce(v.msg, func(r *Case) {
				if b := base["json"]; b != nil {
					r.Det = []RunCfg{b.cfg}
				}
				r.Race = []RunCfg{cfg}
			})
			return v
		}
		if res.raced() {
			v.msg = fmt.Sprintf("the race detector reported a data race in %s (-tests=%v), exit status %d:\n%s", cfg, c.Tests, res.exit, trunc(res.stderr, 6000))
			reduce(v.msg, func(r *Case) { r.Race = []RunCfg{cfg} })
			return v
		}
		if res.exit != 0 && res.exit != 1 {
			v.infra = fmt.Sprintf("%s (race build): exit status %d\nstderr: %s", cfg, res.exit, trunc(res.stderr, 2000))
			return v
		}
		if b := base["json"]; b != nil && cfg.Format == "json" && (res.stdout != b.stdout || res.exit != b.exit) {
			v.msg = fmt.Sprintf("the -race build printed something else than the plain build on the same module (-tests=%v).\nA: %s -> exit %d\nB (race build): %s -> exit %d\n%s",
				c.Tests, b.cfg, b.exit, cfg, res.exit, firstDiff(b.stdout, res.stdout))
			reduce(v.msg, func(r *Case) { r.Det = []RunCfg{b.cfg}; r.Race = []RunCfg{cfg} })
			return v
		}
	}
	if detStage(func(f string) bool { return f != "json" }) {
		return v
	}

	// ---- (ii) the problems of a package do not depend on the other packages named
	single := map[string][]string{}
	singleCfg := map[string]RunCfg{}
	for _, p := range c.Singles {
		if ev.PastDeadline() {
			return v
		}
		cfg := RunCfg{Format: "json", Procs: c.SProcs, Patterns: []string{"./" + p}}
		res, err := staticcheck(binPlain, dir, c.Tests, cfg)
		if err != nil {
			v.infra = err.Error()
			return v
		}
		if res.timedOut {
			v.msg = hangMsg(c, res, base["json"])
			reduce(v.msg, func(r *Case) { r.Singles = []string{p}; r.SProcs = c.SProcs; r.Det = firstDet(c) })
			return v
		}
		if res.exit != 0 && res.exit != 1 {
			v.msg = fmt.Sprintf("%s: exit status %d although ./... succeeded\nstderr: %s", cfg, res.exit, trunc(res.stderr, 2000))
			reduce(v.msg, func(r *Case) { r.Singles = []string{p}; r.SProcs = c.SProcs; r.Det = firstDet(c) })
			return v
		}
		ps, err := parseJSON(res.stdout, dir)
		if err != nil {
			v.infra = err.Error()
			return v
		}
		single[p], singleCfg[p] = ps.byPkg[p], cfg
		for q, lines := range ps.byPkg {
			if q != p {
				ev.Count("problems_outside_the_named_package_in_single_runs", len(lines))
			}
		}
		if baseJSON != nil {
			b := base["json"]
			ev.Case(ev.Hash(mh, "all-vs-single", cfgKey(b.cfg, hook), cfgKey(cfg, hook)), graphOK && crossFacts > 0 && b.cfg.Procs != cfg.Procs,
				"pair_all_vs_single", testsClass)
			if !equalLines(baseJSON.byPkg[p], single[p]) {
				v.msg = fmt.Sprintf("the problems located in package %s differ between ./... and the package alone (-tests=%v).\nA: %s\nB: %s\n%s",
					p, c.Tests, b.cfg, cfg, diffSets(baseJSON.byPkg[p], single[p]))
				reduce(v.msg, func(r *Case) { r.Singles = []string{p}; r.SProcs = c.SProcs; r.Det = []RunCfg{b.cfg} })
				return v
			}
		}
	}
	for _, s := range c.Subsets {
		named := s.Pkgs
		if s.Dots {
			named = c.Singles
		}
		var outs []string
		for ai, args := range [][]string{s.Args, s.Args2} {
			if ev.PastDeadline() {
				return v
			}
			if len(args) == 0 {
				continue
			}
			cfg := RunCfg{Format: "json", Procs: s.Procs, Seed: s.Seed, Patterns: args}
			res, err := staticcheck(binPlain, dir, c.Tests, cfg)
			if err != nil {
				v.infra = err.Error()
				return v
			}
			fail := func(msg string) *verdict {
				v.msg = msg
				one := s
				if ai == 1 {
					one.Args = s.Args2
				}
				one.Args2 = nil
				reduce(msg, func(r *Case) { r.Singles = named; r.SProcs = c.SProcs; r.Subsets = []SubsetCfg{one} })
				return v
			}
			if res.timedOut {
				return fail(hangMsg(c, res, base["json"]))
			}
			if res.exit != 0 && res.exit != 1 {
				return fail(fmt.Sprintf("%s: exit status %d although the packages alone succeeded\nstderr: %s", cfg, res.exit, trunc(res.stderr, 2000)))
			}
			ps, err := parseJSON(res.stdout, dir)
			if err != nil {
				v.infra = err.Error()
				return v
			}
			outs = append(outs, res.stdout)
			nset := len(s.Pkgs)
			if s.Dots {
				nset = len(c.Pkgs)
			}
			classes := []string{"pair_subset_vs_single", fmt.Sprintf("subset_size_%02d", nset), testsClass}
			if s.Dots {
				classes = append(classes, "subset_with_dots_pattern")
			}
			if len(args) > len(distinctStrings(args)) {
				classes = append(classes, "subset_with_duplicate_pattern")
			}
			for _, a := range args {
				if strings.HasPrefix(a, modPath) {
					classes = append(classes, "subset_with_import_path_pattern")
					break
				}
			}
			for _, p := range named {
				if _, ok := single[p]; !ok {
					continue
				}
				ev.Case(ev.Hash(mh, "subset", cfgKey(singleCfg[p], hook), cfgKey(cfg, hook), p),
					graphOK && nset >= 2 && ps.crossFactProblems() > 0 && cfg.Procs != c.SProcs, classes...)
				if !equalLines(ps.byPkg[p], single[p]) {
					return fail(fmt.Sprintf("the problems located in package %s depend on the other packages named (-tests=%v).\nA: %s\nB: %s\n%s",
						p, c.Tests, cfg, singleCfg[p], diffSets(ps.byPkg[p], single[p])))
				}
			}
			if !s.Dots {
				isNamed := map[string]bool{}
				for _, p := range s.Pkgs {
					isNamed[p] = true
				}
				for q, lines := range ps.byPkg {
					if !isNamed[q] {
						ev.Count("problems_outside_the_named_packages_in_subset_runs", len(lines))
					}
				}
			}
		}
		if len(outs) == 2 {
			if outs[0] == outs[1] {
				ev.Count("pattern_orders_byte_identical", 1)
			} else {
				ev.Count("pattern_orders_not_byte_identical", 1)
			}
		}
	}

	return v
}

// hangMsg describes a run that was killed after its time limit while another
// run on the same module ended.
func hangMsg(c *Case, res *runResult, other *runResult) string {
	if other == nil {
		other = &runResult{cfg: RunCfg{Format: "(no other run of this evaluation ended before)"}}
	}
	return fmt.Sprintf("a run did not end within %v while another run on the same module ended after %v (-tests=%v).\nnot ending: %s (%s)\nended: %s\nstderr of the killed run (goroutine dump after SIGQUIT):\n%s",
		res.limit, other.wall.Round(time.Millisecond), c.Tests, res.cfg, res.bin, other.cfg, trunc(res.stderr, 5000))
}

// dumpSummary keeps the stack of goroutine 1 and the runner frames of a goroutine dump.
func dumpSummary(dump string) string {
	var sb strings.Builder
	for _, g := range strings.Split(dump, "\n\n") {
		if strings.HasPrefix(g, "goroutine 1 ") || strings.Contains(g, "lintcmd/runner.") {
			sb.WriteString(trunc(g, 1200) + "\n\n")
		}
		if sb.Len() > 6000 {
			break
		}
	}
	if sb.Len() == 0 {
		return trunc(dump, 2000)
	}
	return sb.String()
}

func firstDet(c *Case) []RunCfg {
	if len(c.Det) == 0 {
		return nil
	}
	return c.Det[:1]
}

func equalLines(a, b []string) bool {
	if len(a) != len(b) {
		return false
	}
	for i := range a {
		if a[i] != b[i] {
			return false
		}
	}
	return true
}

func distinctStrings(xs []string) []string {
	m := map[string]bool{}
	var out []string
	for _, x := range xs {
		if !m[x] {
			m[x] = true
			out = append(out, x)
		}
	}
	return out
}

// warmViolation turns a race reported during the cold run that builds the
// std-only cache of the race binary into a violation (that run analyses about
// 130 standard-library packages concurrently). It also records the run.
func warmViolation() (string, *Case) {
	s := stdRace
	if !s.warmed {
		return "", nil
	}
	s.warmed = false
	ev.Case(ev.Hash("race-cold-std"), true, "race_run", "race_run_cold_std")
	if s.warmExit == 66 || strings.Contains(s.warmStderr, "DATA RACE") {
		msg := "the race detector reported a data race in a cold run over the std-only module (GOMAXPROCS=8):\n" + trunc(s.warmStderr, 6000)
		c := &Case{Module: modPath, Pkgs: []string{"q"}, Imports: map[string][]string{"q": {}}, Tests: true,
			Files: map[string]string{"go.mod": "module " + modPath + "\n\ngo 1.26.0\n", "q/a.go": stdModFiles},
			Race:  []RunCfg{{Format: "json", Procs: 8, Seed: 1}}, Repeat: 3, Note: trunc(msg, 3000)}
		return msg, c
	}
	return "", nil
}

func assumptions() {
	ev.Rule(rule)
	ev.Assume("the result cache is not the subject: every run starts from a private STATICCHECK_CACHE that is a fresh copy of a std-only cache (facts of the standard-library packages imported by the generated modules and their synthesised test mains; built once per binary and per ./check invocation by a cold run on a module that imports nothing but errors, shared read-only between the shards). The module's own packages are therefore always analysed, the standard library is always a cache hit; scheduling among cold standard-library packages is only exercised by the cold cache-building runs (the race build's is checked for races) and by the thorough repository slice")
	ev.Assume("GOCACHE (go list -export) is shared between runs and not under test")
	ev.Assume("schedules are sampled through GOMAXPROCS of the child process, repetition (map iteration order, goroutine timing), machine load of the 16 parallel shards and, when the binary is built with hook H1, seeded Gosched/sleep perturbation at the dispatch points of the runner (VERIF_SCHED_SEED); they are not enumerated")
	ev.Assume("race freedom = no report of the Go race detector in the explored runs of the -race build (GORACE=halt_on_error=1 exitcode=66)")
	ev.Assume("a violation observed once counts: when rapid re-evaluates an identical case while shrinking, the recorded observation is reused (schedule-dependent failures need not reproduce)")
}

// ---------------------------------------------------------------- a slice of the repository under the race detector (thorough)

// TestRepoSlice runs before TestSchedules (source order) so that it is not cut by the soft deadline.
func TestRepoSlice(t *testing.T) {
	if !ev.Thorough() && os.Getenv("C06_REPO_SLICE") == "" {
		return
	}
	assumptions()
	// two shards, one GOMAXPROCS each; both runs start from an EMPTY cache
	procs := map[int]int{2: 16, 4: 4}[ev.Shard()]
	if ev.NShards() == 1 {
		procs = 16
	}
	if procs == 0 {
		return
	}
	repo := os.Getenv("C06_REPO")
	if repo == "" {
		repo = "/repo"
	}
	pats := []string{"./pattern/...", "./config/...", "./lintcmd/...", "./unused/..."}
	if p := os.Getenv("C06_REPO_PATTERNS"); p != "" {
		pats = strings.Fields(p)
	}
	run := func(bin string) (*runResult, error) {
		cache, err := os.MkdirTemp("", "c06repo-")
		if err != nil {
			return nil, err
		}
		defer os.RemoveAll(cache)
		cfg := RunCfg{Format: "json", Procs: procs, Seed: int64(procs), Patterns: pats, limit: 25 * time.Minute}
		return runIn(bin, repo, cache, cfg, "-mod=readonly")
	}
	plain, err := run(binPlain)
	if err != nil {
		ev.Infra("repository slice: %v", err)
		return
	}
	if plain.exit != 0 && plain.exit != 1 {
		ev.Infra("repository slice: plain build exit %d: %s", plain.exit, trunc(plain.stderr, 1500))
		return
	}
	raced, err := run(binRace)
	if err != nil {
		ev.Infra("repository slice: %v", err)
		return
	}
	ev.Case(ev.Hash("repo-slice", fmt.Sprint(procs)), true, "race_run", "race_run_repository_slice_cold", fmt.Sprintf("race_procs_%02d", procs))
	ev.Count("race_run_wall_ms", int(raced.wall.Milliseconds()))
	desc := fmt.Sprintf("cd %s && GOMAXPROCS=%d staticcheck -f json %s (empty cache)", repo, procs, strings.Join(pats, " "))
	if raced.timedOut && !raced.raced() {
		msg := fmt.Sprintf("the -race build did not end within %v (the plain build took %v) in: %s\n%s", raced.limit, plain.wall.Round(time.Second), desc, dumpSummary(raced.stderr))
		ev.Violate("TestRepoSlice", msg, "txt", []byte(msg))
		t.Errorf("%s", msg)
		return
	}
	if raced.raced() {
		msg := "the race detector reported a data race in: " + desc + "\n" + trunc(raced.stderr, 6000)
		ev.Violate("TestRepoSlice", msg, "txt", []byte(msg))
		t.Errorf("%s", msg)
		return
	}
	if raced.exit != plain.exit || raced.stdout != plain.stdout {
		msg := fmt.Sprintf("plain and -race build print different results for: %s\nexit %d vs %d\n%s", desc, plain.exit, raced.exit, firstDiff(plain.stdout, raced.stdout))
		ev.Violate("TestRepoSlice", msg, "txt", []byte(msg))
		t.Errorf("%s", msg)
	}
}

// TestCorpus runs before TestSchedules (source order): the saved cases come first.
func TestCorpus(t *testing.T) {
	if os.Getenv("VERIF_SECONDARY") != "" {
		return
	}
	assumptions()
	files, _ := filepath.Glob(filepath.Join(os.Getenv("VERIF_ROOT"), "corpus", "C06", "*.json"))
	sort.Strings(files)
	for _, f := range files {
		if ev.PastDeadline() {
			return
		}
		replayFile(t, f, "TestCorpus")
	}
}

func TestSchedules(t *testing.T) {
	assumptions()
	if _, err := stdPlain.get(); err != nil {
		ev.Infra("std-only cache: %v", err)
		t.Fatalf("std-only cache: %v", err)
	}
	if hookOn() {
		ev.Extra("scheduling_hook_H1", "active: VERIF_SCHED_SEED perturbs the runner's dispatch points")
	} else {
		ev.Extra("scheduling_hook_H1", "absent in the binary: VERIF_SCHED_SEED is ignored, schedules vary by GOMAXPROCS, repetition and load only")
	}
	raceEvery := ev.EnvInt("C06_RACE_EVERY", 4, 2)
	// every raceEvery-th shard also runs the -race build (not shard 0, which replays the corpus); C06_RACE_EVERY=0 switches it off
	doRace := raceEvery > 0 && (ev.NShards() == 1 || ev.Shard()%raceEvery == 1%raceEvery)
	var raceWarm sync.WaitGroup
	if doRace {
		// build the race binary's std-only cache while the other runs go on
		raceWarm.Add(1)
		go func() { defer raceWarm.Done(); stdRace.get() }()
	}
	defer func() {
		raceWarm.Wait()
		// private caches of a stand-alone run (no-op for the shared ones below VERIF_OUT)
		stdPlain.drop()
		stdRace.drop()
	}()
	maxPkgs := ev.EnvInt("C06_MAXPKGS", 12, 12)
	nrep := ev.EnvInt("C06_REPEATS", 1, 30)
	nfmt := ev.EnvInt("C06_FMT_RUNS", 1, 6)
	nsingles := ev.EnvInt("C06_SINGLES", 3, 6)
	nsubsets := ev.EnvInt("C06_SUBSETS", 2, 0)
	allSubsets := ev.Thorough()
	ev.Check(t, "TestSchedules", func(rt *rapid.T) {
		c := &Case{}
		genModule(rt, c, maxPkgs)
		c.Tests = chance(rt, "tests_flag", 60)
		genPlan(rt, c, nrep, nfmt, nsingles, nsubsets, allSubsets, doRace)
		runCase(rt, c)
	})
	raceWarm.Wait()
	if msg, rc := warmViolation(); msg != "" {
		js, _ := json.Marshal(rc)
		ev.Violate("TestSchedules", msg, "json", js)
		t.Errorf("%s", msg)
	}
}

func runCase(rt *rapid.T, c *Case) {
	js, _ := json.Marshal(c)
	key := ev.Hash(string(js))
	memoMu.Lock()
	v := memo[key]
	memoMu.Unlock()
	ev.Begin("TestSchedules", "json", js)
	if v == nil {
		v = evaluate(c)
	}
	switch {
	case v.infra != "":
		// no rt.Skip: rapid would draw up to ten replacement cases and then
		// fail the test for want of valid ones; the run is inconclusive anyway
		ev.Infra("%s", v.infra)
		return
	case v.invalid != "":
		ev.Infra("generator produced an invalid module: %s", v.invalid)
		return
	case v.msg != "":
		memoMu.Lock()
		memo[key] = v
		memoMu.Unlock()
		rj, _ := json.Marshal(v.reduced)
		ev.Begin("TestSchedules", "json", rj)
		ev.Failf(rt, "TestSchedules", "%s\n(module: %d packages, imports %v)", v.msg, len(c.Pkgs), c.Imports)
	}
	if ev.WantSample() && len(c.Det) > 0 {
		ev.Sample(map[string]any{"packages": len(c.Pkgs), "imports": c.Imports, "tests": c.Tests, "files": len(c.Files),
			"det_runs": len(c.Det), "singles": c.Singles, "subsets": len(c.Subsets), "race_runs": len(c.Race),
			"first_subset": firstSubset(c)})
	}
}

func firstSubset(c *Case) any {
	if len(c.Subsets) == 0 {
		return nil
	}
	return c.Subsets[0]
}

// ---------------------------------------------------------------- corpus / replay

func replayFile(t *testing.T, f, test string) {
	b, err := os.ReadFile(f)
	if err != nil {
		ev.Infra("read %s: %v", f, err)
		return
	}
	if strings.HasSuffix(f, ".fail.json") {
		var fc FailCase
		if err := json.Unmarshal(b, &fc); err != nil {
			ev.Infra("decode %s: %v", f, err)
			return
		}
		for i := 0; i < 3; i++ {
			msg, infra := evalFailCase(&fc)
			if infra != "" {
				ev.Infra("replay %s: %s", f, infra)
				return
			}
			if msg != "" {
				ev.Violate(test, fmt.Sprintf("replay of %s (attempt %d of 3):\n%s", f, i+1, msg), "fail.json", b)
				t.Errorf("%s", msg)
				return
			}
		}
		t.Logf("replay %s: property held in 3 evaluations", f)
		return
	}
	var c Case
	if err := json.Unmarshal(b, &c); err != nil {
		ev.Infra("decode %s: %v", f, err)
		return
	}
	n := c.Repeat
	if n < 1 {
		n = 1
	}
	for i := 0; i < n; i++ {
		v := evaluate(&c)
		switch {
		case v.infra != "":
			ev.Infra("replay %s: %s", f, v.infra)
			return
		case v.invalid != "":
			ev.Infra("replay %s: invalid module: %s", f, v.invalid)
			return
		case v.msg != "":
			ev.Violate(test, fmt.Sprintf("replay of %s (attempt %d of %d):\n%s", f, i+1, n, v.msg), "json", b)
			t.Errorf("%s", v.msg)
			return
		}
	}
	t.Logf("replay %s: property held in %d evaluation(s) of the plan", f, n)
}

func TestReplay(t *testing.T) {
	if f := ev.ReplayFile(); f != "" {
		assumptions()
		replayFile(t, f, "TestReplay")
		stdPlain.drop()
		stdRace.drop()
	}
}

// TestDump writes one generated case to $C06_DUMP (debugging aid; inert otherwise).
func TestDump(t *testing.T) {
	dir := os.Getenv("C06_DUMP")
	if dir == "" {
		return
	}
	c := rapid.Custom(func(rt *rapid.T) *Case {
		c := &Case{}
		genModule(rt, c, 12)
		c.Tests = chance(rt, "tests_flag", 70)
		genPlan(rt, c, 2, 2, 4, 3, false, true)
		return c
	}).Example(int(ev.Seed()))
	os.MkdirAll(dir, 0o755)
	if err := writeModule(c, dir); err != nil {
		t.Fatal(err)
	}
	js, _ := json.MarshalIndent(c, "", " ")
	os.WriteFile(filepath.Join(dir, "case.json"), js, 0o644)
}

// TestZZCleanup runs last and removes the private caches of a stand-alone run.
func TestZZCleanup(t *testing.T) {
	stdPlain.drop()
	stdRace.drop()
}
