package c06

import (
	"bytes"
	"encoding/gob"
	"encoding/json"
	"fmt"
	"io"
	"io/fs"
	"os"
	"os/exec"
	"path/filepath"
	"sort"
	"strings"
	"sync"
	"syscall"
	"time"

	"honnef.co/go/tools/lintcmd/runner"
	"verif/harness/internal/ev"
)

// ---------------------------------------------------------------- binaries and the scheduling hook

const (
	binPlain = "staticcheck"
	binRace  = "staticcheck-race"
	// printed on stderr by hook H1 (lintcmd/runner/sched_verif.go) when VERIF_SCHED_DEBUG=1
	hookMarker = "verif: scheduling hook active"
)

func binPath(name string) string { return filepath.Join(ev.BinDir(), name) }

func childEnv(extra ...string) []string {
	var env []string
	for _, kv := range os.Environ() {
		k, _, _ := strings.Cut(kv, "=")
		switch k {
		case "GOMAXPROCS", "GORACE", "STATICCHECK_CACHE", "VERIF_SCHED_SEED", "VERIF_SCHED_DEBUG", "GOFLAGS", "GOPROXY", "GOWORK":
			continue
		}
		env = append(env, kv)
	}
	env = append(env, "GOPROXY=off", "GOWORK=off")
	return append(env, extra...)
}

var (
	hookOnce   sync.Once
	hookActive bool
)

// hookOn reports whether the staticcheck binary was built with hook H1
// (seeded yields in the runner). Without it VERIF_SCHED_SEED is ignored and the
// runs are plain repetitions.
func hookOn() bool {
	hookOnce.Do(func() {
		cmd := exec.Command(binPath(binPlain), "-version")
		cmd.Env = childEnv("VERIF_SCHED_SEED=1", "VERIF_SCHED_DEBUG=1")
		var e bytes.Buffer
		cmd.Stderr = &e
		cmd.Run()
		hookActive = strings.Contains(e.String(), hookMarker)
	})
	return hookActive
}

// ---------------------------------------------------------------- caches
//
// Every run gets a private STATICCHECK_CACHE: a fresh copy of a "std-only"
// cache that holds nothing but the facts of the standard-library packages the
// generated modules depend on (errors, and what the synthesised test mains
// import). Analysing those cold costs 10-50 s per run and is the same work in
// every run; the module's own packages are always analysed from scratch. The
// cache key contains the build id of the binary, so the plain and the -race
// binary have one std-only cache each. Within one ./check invocation the
// shards share the two std-only caches (below VERIF_OUT, removed by the
// driver); the first shard to arrive builds them.

const stdModFiles = `// Package q only pulls the standard-library dependencies into the cache.
package q

import "errors"

// ErrQ is an error.
var ErrQ = errors.New("q")
`

type stdCache struct {
	bin  string
	once sync.Once
	dir  string
	err  error
	priv bool
	// result of the warming run (a cold run over the standard library)
	warmExit   int
	warmStderr string
	warmed     bool // this process did the warming run
}

var (
	stdPlain = &stdCache{bin: binPlain}
	stdRace  = &stdCache{bin: binRace}
)

func (s *stdCache) warm(dir string) error {
	mod, err := os.MkdirTemp("", "c06std-")
	if err != nil {
		return err
	}
	defer os.RemoveAll(mod)
	os.MkdirAll(filepath.Join(mod, "q"), 0o755)
	os.WriteFile(filepath.Join(mod, "go.mod"), []byte("module "+modPath+"\n\ngo 1.26.0\n"), 0o644)
	os.WriteFile(filepath.Join(mod, "q", "a.go"), []byte(stdModFiles), 0o644)
	os.WriteFile(filepath.Join(mod, "q", "a_test.go"), []byte("package q\n\nvar _ = ErrQ\n"), 0o644)
	os.WriteFile(filepath.Join(mod, "q", "x_test.go"), []byte("package q_test\n\nimport \""+modPath+"/q\"\n\nvar _ = q.ErrQ\n"), 0o644)
	cmd := exec.Command(binPath(s.bin), "-f", "json", "./...")
	cmd.Dir = mod
	extra := []string{"GOFLAGS=-mod=mod", "STATICCHECK_CACHE=" + dir, "GOMAXPROCS=8", "VERIF_SCHED_SEED=1"}
	if s.bin == binRace {
		extra = append(extra, "GORACE=halt_on_error=1 exitcode=66")
	}
	cmd.Env = childEnv(extra...)
	var o, e bytes.Buffer
	cmd.Stdout, cmd.Stderr = &o, &e
	err = cmd.Run()
	s.warmed = true
	s.warmStderr = e.String()
	if ee, ok := err.(*exec.ExitError); ok {
		s.warmExit = ee.ExitCode()
		err = nil
	}
	if err != nil {
		return fmt.Errorf("%s did not start: %v", s.bin, err)
	}
	if s.warmExit == 66 || strings.Contains(s.warmStderr, "DATA RACE") {
		return nil // reported by the caller as a violation; the cache is unusable but that no longer matters
	}
	if s.warmExit != 0 || strings.TrimSpace(o.String()) != "" {
		return fmt.Errorf("%s on the std-only module: exit %d, stdout %q, stderr %q", s.bin, s.warmExit, o.String(), trunc(e.String(), 2000))
	}
	return nil
}

// get returns the std-only cache directory of the binary, building it if necessary.
func (s *stdCache) get() (string, error) {
	s.once.Do(func() {
		if _, err := os.Stat(binPath(s.bin)); err != nil {
			s.err = fmt.Errorf("binary %s is missing in %s", s.bin, ev.BinDir())
			return
		}
		if os.Getenv("VERIF_OUT") == "" || ev.NShards() == 1 {
			s.priv = true
			s.dir, s.err = os.MkdirTemp("", "c06stdcache-")
			if s.err == nil {
				s.err = s.warm(s.dir)
			}
			return
		}
		s.dir = filepath.Join(ev.OutDir(), "c06-stdcache-"+s.bin)
		lock, done := s.dir+".lock", s.dir+".done"
		if err := os.Mkdir(lock, 0o755); err == nil {
			os.MkdirAll(s.dir, 0o755)
			s.err = s.warm(s.dir)
			msg := "ok"
			if s.err != nil {
				msg = "failed: " + s.err.Error()
			}
			os.WriteFile(done, []byte(msg), 0o644)
			return
		}
		for i := 0; i < 4*900; i++ {
			if b, err := os.ReadFile(done); err == nil {
				if string(b) != "ok" {
					s.err = fmt.Errorf("another shard could not build the std-only cache: %s", b)
				}
				return
			}
			time.Sleep(250 * time.Millisecond)
		}
		s.err = fmt.Errorf("timed out waiting for the std-only cache of %s", s.bin)
	})
	return s.dir, s.err
}

func (s *stdCache) drop() {
	if s.priv && s.dir != "" {
		os.RemoveAll(s.dir)
	}
}

func copyTree(src, dst string) error {
	return filepath.WalkDir(src, func(p string, d fs.DirEntry, err error) error {
		if err != nil {
			return err
		}
		rel, _ := filepath.Rel(src, p)
		to := filepath.Join(dst, rel)
		if d.IsDir() {
			return os.MkdirAll(to, 0o755)
		}
		in, err := os.Open(p)
		if err != nil {
			return err
		}
		defer in.Close()
		out, err := os.Create(to)
		if err != nil {
			return err
		}
		if _, err := io.Copy(out, in); err != nil {
			out.Close()
			return err
		}
		return out.Close()
	})
}

// ---------------------------------------------------------------- one run

type runResult struct {
	cfg    RunCfg
	bin    string
	exit   int
	stdout string
	stderr string
	wall   time.Duration
	// the run was still going after limit and was killed (SIGQUIT first: stderr holds the goroutine dump)
	timedOut bool
	limit    time.Duration
}

func (r *runResult) raced() bool {
	return r.exit == 66 || strings.Contains(r.stderr, "WARNING: DATA RACE")
}

// staticcheck runs the binary on the module in dir with a private cache
// (copy of the std-only cache).
func staticcheck(bin, dir string, tests bool, cfg RunCfg) (*runResult, error) {
	sc := stdPlain
	if bin == binRace {
		sc = stdRace
	}
	std, err := sc.get()
	if err != nil {
		return nil, err
	}
	cache, err := os.MkdirTemp("", "c06cache-")
	if err != nil {
		return nil, err
	}
	defer os.RemoveAll(cache)
	if err := copyTree(std, cache); err != nil {
		return nil, fmt.Errorf("copying the std-only cache: %v", err)
	}
	return runIn(bin, dir, cache, cfg, "-mod=mod", fmt.Sprintf("-tests=%v", tests))
}

// runIn runs the binary in dir with the given cache directory.
func runIn(bin, dir, cache string, cfg RunCfg, modflag string, flags ...string) (*runResult, error) {
	pats := cfg.Patterns
	if len(pats) == 0 {
		pats = []string{"./..."}
	}
	args := append([]string{"-f", cfg.Format}, flags...)
	args = append(args, pats...)
	cmd := exec.Command(binPath(bin), args...)
	cmd.Dir = dir
	extra := []string{"GOFLAGS=" + modflag, "STATICCHECK_CACHE=" + cache, fmt.Sprintf("GOMAXPROCS=%d", cfg.Procs)}
	if cfg.Seed != 0 {
		extra = append(extra, fmt.Sprintf("VERIF_SCHED_SEED=%d", cfg.Seed))
	}
	if bin == binRace {
		extra = append(extra, "GORACE=halt_on_error=1 exitcode=66")
	}
	cmd.Env = childEnv(extra...)
	var o, e bytes.Buffer
	cmd.Stdout, cmd.Stderr = &o, &e
	t0 := time.Now()
	if err := cmd.Start(); err != nil {
		return nil, fmt.Errorf("%s did not start: %v", bin, err)
	}
	done := make(chan error, 1)
	go func() { done <- cmd.Wait() }()
	limit := runTimeout(bin)
	if cfg.limit > 0 {
		limit = cfg.limit
	}
	var err error
	timedOut := false
	select {
	case err = <-done:
	case <-time.After(limit):
		// a run that does not end: ask for a goroutine dump, then kill
		timedOut = true
		cmd.Process.Signal(syscall.SIGQUIT)
		select {
		case err = <-done:
		case <-time.After(10 * time.Second):
			cmd.Process.Kill()
			err = <-done
		}
	}
	res := &runResult{cfg: cfg, bin: bin, stdout: o.String(), stderr: e.String(), wall: time.Since(t0), timedOut: timedOut, limit: limit}
	if err != nil {
		ee, ok := err.(*exec.ExitError)
		if !ok {
			return nil, fmt.Errorf("%s: %v", bin, err)
		}
		res.exit = ee.ExitCode()
		if ws, ok := ee.Sys().(syscall.WaitStatus); ok && ws.Signaled() && !timedOut {
			// killed from outside (out of memory, somebody's pkill): says nothing about the linter
			return nil, fmt.Errorf("%s (%s) was killed by signal %v after %v; not a verdict", cfg, bin, ws.Signal(), res.wall.Round(time.Millisecond))
		}
	}
	ev.Count("staticcheck_runs", 1)
	return res, nil
}

// runTimeout is the time after which a run counts as not terminating. The
// generated modules take 2-20 s per run even on a heavily loaded machine.
func runTimeout(bin string) time.Duration {
	if bin == binRace {
		return time.Duration(ev.EnvInt("C06_RACE_TIMEOUT_S", 420, 600)) * time.Second
	}
	return time.Duration(ev.EnvInt("C06_RUN_TIMEOUT_S", 240, 300)) * time.Second
}

func writeModule(c *Case, dir string) error {
	for name, src := range c.Files {
		p := filepath.Join(dir, filepath.FromSlash(name))
		if err := os.MkdirAll(filepath.Dir(p), 0o755); err != nil {
			return err
		}
		if err := os.WriteFile(p, []byte(src), 0o644); err != nil {
			return err
		}
	}
	return nil
}

// ---------------------------------------------------------------- reading the output

type jsonProblem struct {
	Code     string `json:"code"`
	Severity string `json:"severity"`
	Location struct {
		File   string `json:"file"`
		Line   int    `json:"line"`
		Column int    `json:"column"`
	} `json:"location"`
	Message string `json:"message"`
}

type parsed struct {
	byPkg map[string][]string // package directory -> raw JSON lines, sorted
	codes map[string]int
	other int // problems outside the module's package directories
}

// parseJSON splits the -f json output by the package directory of the
// problem's file. The lines themselves are kept verbatim (position, end,
// message, severity, related information).
func parseJSON(out, dir string) (*parsed, error) {
	real, err := filepath.EvalSymlinks(dir)
	if err != nil {
		real = dir
	}
	p := &parsed{byPkg: map[string][]string{}, codes: map[string]int{}}
	for _, ln := range strings.Split(out, "\n") {
		if strings.TrimSpace(ln) == "" {
			continue
		}
		var j jsonProblem
		if err := json.Unmarshal([]byte(ln), &j); err != nil {
			return nil, fmt.Errorf("output line is not JSON: %q", ln)
		}
		p.codes[j.Code]++
		rel, err := filepath.Rel(real, j.Location.File)
		if err != nil || strings.HasPrefix(rel, "..") {
			rel, err = filepath.Rel(dir, j.Location.File)
		}
		if err != nil || strings.HasPrefix(rel, "..") || !strings.Contains(rel, string(filepath.Separator)) {
			p.other++
			p.byPkg[""] = append(p.byPkg[""], ln)
			continue
		}
		pkg := filepath.ToSlash(filepath.Dir(rel))
		p.byPkg[pkg] = append(p.byPkg[pkg], ln)
	}
	for _, v := range p.byPkg {
		sort.Strings(v)
	}
	return p, nil
}

func (p *parsed) crossFactProblems() int {
	return p.codes["SA1019"] + p.codes["SA4017"] + p.codes["SA4023"]
}

// firstDiff describes the first differing line of two outputs.
func firstDiff(a, b string) string {
	la, lb := strings.Split(a, "\n"), strings.Split(b, "\n")
	for i := 0; i < len(la) || i < len(lb); i++ {
		var x, y string
		if i < len(la) {
			x = la[i]
		}
		if i < len(lb) {
			y = lb[i]
		}
		if x != y {
			return fmt.Sprintf("first difference at line %d (of %d resp. %d lines):\n  A: %s\n  B: %s", i+1, len(la), len(lb), printable(trunc(x, 600)), printable(trunc(y, 600)))
		}
	}
	return "no differing line"
}

// diffSets renders the symmetric difference of two sorted multisets of lines.
func diffSets(a, b []string) string {
	cnt := map[string]int{}
	for _, x := range a {
		cnt[x]++
	}
	for _, x := range b {
		cnt[x]--
	}
	var keys []string
	for k, n := range cnt {
		if n != 0 {
			keys = append(keys, k)
		}
	}
	sort.Strings(keys)
	var sb strings.Builder
	for i, k := range keys {
		if i == 8 {
			fmt.Fprintf(&sb, "  ... %d more\n", len(keys)-i)
			break
		}
		side := "only in A"
		if cnt[k] < 0 {
			side = "only in B"
		}
		fmt.Fprintf(&sb, "  %s: %s\n", side, trunc(k, 500))
	}
	return sb.String()
}

func printable(s string) string {
	for _, r := range s {
		if r < ' ' && r != '\t' || r == 0xFFFD {
			return fmt.Sprintf("%q", s)
		}
	}
	return s
}

func trunc(s string, n int) string {
	if len(s) > n {
		return s[:n] + "…"
	}
	return s
}

// ---------------------------------------------------------------- normal forms for the two formats with known order noise

// normSarif sorts runs[].tool.driver.rules by id and re-encodes.
func normSarif(out string) (string, error) {
	var doc map[string]any
	if err := json.Unmarshal([]byte(out), &doc); err != nil {
		return "", err
	}
	runs, _ := doc["runs"].([]any)
	for _, r := range runs {
		rm, _ := r.(map[string]any)
		tool, _ := rm["tool"].(map[string]any)
		drv, _ := tool["driver"].(map[string]any)
		rules, _ := drv["rules"].([]any)
		sort.SliceStable(rules, func(i, j int) bool {
			a, _ := rules[i].(map[string]any)
			b, _ := rules[j].(map[string]any)
			x, _ := a["id"].(string)
			y, _ := b["id"].(string)
			return x < y
		})
	}
	b, err := json.Marshal(doc) // map keys are encoded in sorted order
	return string(b), err
}

// the gob stream of -f binary, decoded structurally (gob matches fields by name)
type binDiag struct {
	Diagnostic runner.Diagnostic
	Severity   uint8
	MergeIf    int
	BuildName  string
}

type binResult struct {
	CheckedFiles []string
	Diagnostics  []binDiag
	Warnings     []string
}

// normBinary decodes the -f binary stream and renders it with the files and
// the diagnostics sorted.
func normBinary(out string) (string, error) {
	dec := gob.NewDecoder(strings.NewReader(out))
	var sb strings.Builder
	for n := 0; ; n++ {
		var r binResult
		if err := dec.Decode(&r); err != nil {
			if err == io.EOF && n > 0 {
				break
			}
			return "", fmt.Errorf("decoding run %d: %v", n, err)
		}
		sort.Strings(r.CheckedFiles)
		var ds []string
		for _, d := range r.Diagnostics {
			b, _ := json.Marshal(d)
			ds = append(ds, string(b))
		}
		sort.Strings(ds)
		fmt.Fprintf(&sb, "run %d\nfiles %q\nwarnings %q\n%s\n", n, r.CheckedFiles, r.Warnings, strings.Join(ds, "\n"))
	}
	return sb.String(), nil
}
