module verif/harness

go 1.26.0

require (
	honnef.co/go/tools v0.0.0
	pgregory.net/rapid v1.3.0
)

replace honnef.co/go/tools => /repo
