package c04

import (
	"bytes"
	"fmt"
	"io"
	"io/fs"
	"os"
	"os/exec"
	"path/filepath"
	"sort"
	"strings"
	"sync"
	"time"

	"verif/harness/internal/ev"
)

// ---------------------------------------------------------------- one staticcheck run

type runOut struct {
	exit     int
	lines    []string        // sorted stdout lines, the history directory replaced by $D
	analysed map[string]bool // package IDs that appear in the -debug.measure-analyzers file
	stderr   string
	dur      time.Duration
}

func (f Flags) args() []string {
	a := []string{"-f", "json"}
	if f.Go != "" && f.Go != "module" {
		a = append(a, "-go", f.Go)
	} else {
		a = append(a, "-go", "module")
	}
	if f.Tags {
		a = append(a, "-tags", "special")
	}
	a = append(a, fmt.Sprintf("-tests=%v", f.Tests))
	if f.Checks != "" {
		a = append(a, "-checks", f.Checks)
	}
	return a
}

func (f Flags) patterns() []string {
	if f.Pattern == "" {
		return []string{"./..."}
	}
	return strings.Fields(f.Pattern)
}

func (f Flags) goflags() string {
	if f.Trimpath {
		return "-mod=mod -trimpath"
	}
	return "-mod=mod"
}

func (f Flags) String() string {
	return "GOOS=" + f.GOOS + " GOFLAGS='" + f.goflags() + "' staticcheck " + strings.Join(f.args(), " ") + " " + strings.Join(f.patterns(), " ")
}

// staticcheck runs the real binary in dir with the given cache directory.
func staticcheck(dir, root, cache string, f Flags) (*runOut, error) {
	meas, err := os.CreateTemp("", "c04-meas-")
	if err != nil {
		return nil, err
	}
	meas.Close()
	defer os.Remove(meas.Name())
	args := append(append(f.args(), "-debug.measure-analyzers", meas.Name()), f.patterns()...)
	cmd := exec.Command(filepath.Join(ev.BinDir(), "staticcheck"), args...)
	cmd.Dir = dir
	var env []string
	for _, kv := range os.Environ() {
		k, _, _ := strings.Cut(kv, "=")
		switch k {
		case "STATICCHECK_CACHE", "GOOS", "GOARCH", "GOFLAGS", "GOPROXY", "GOWORK", "GOMAXPROCS", "CGO_ENABLED", "GOCACHEPROG", "GODEBUG":
			continue
		}
		env = append(env, kv)
	}
	cmd.Env = append(env, "STATICCHECK_CACHE="+cache, "GOOS="+f.GOOS, "GOFLAGS="+f.goflags(), "GOPROXY=off", "GOWORK=off", "GOMAXPROCS=4", "CGO_ENABLED=0")
	var o, e bytes.Buffer
	cmd.Stdout, cmd.Stderr = &o, &e
	t0 := time.Now()
	err = cmd.Run()
	res := &runOut{stderr: e.String(), analysed: map[string]bool{}, dur: time.Since(t0)}
	if err != nil {
		ee, ok := err.(*exec.ExitError)
		if !ok {
			return nil, fmt.Errorf("staticcheck did not start: %v", err)
		}
		res.exit = ee.ExitCode()
	}
	if res.exit < 0 || res.exit > 2 {
		return res, fmt.Errorf("%s: exit status %d\n%s", f, res.exit, res.stderr)
	}
	real, err := filepath.EvalSymlinks(root)
	if err != nil {
		real = root
	}
	for _, ln := range strings.Split(o.String(), "\n") {
		if strings.TrimSpace(ln) == "" {
			continue
		}
		ln = strings.ReplaceAll(ln, real, "$D")
		ln = strings.ReplaceAll(ln, root, "$D")
		res.lines = append(res.lines, ln)
	}
	sort.Strings(res.lines)
	if b, err := os.ReadFile(meas.Name()); err == nil {
		for _, ln := range strings.Split(string(b), "\n") {
			p := strings.Split(ln, "\t")
			if len(p) == 3 {
				res.analysed[p[1]] = true
			}
		}
	}
	return res, nil
}

func isModulePkg(id string) bool { return strings.HasPrefix(id, modPath) }

// ---------------------------------------------------------------- std base caches
//
// A cold run has to analyse the standard-library closure of the module
// (about 130 packages with the test binary's imports, 10-20 s of CPU). That
// part is the same for the persistent and for the fresh cache and is not what
// the property talks about, so both start from a copy of a "std base" cache:
// the result of linting a DIFFERENT module (example.com/warm) that imports the
// same standard-library packages, with the same -go value and GOOS. The keys
// of the cache contain the package path, so the base never holds an entry for
// a package of the module under test. Bases are built lazily per
// (-go, GOOS, net/http) and shared by the shards of one invocation.

var (
	stdMu      sync.Mutex
	stdPrivate string
	stdReady   = map[string]string{}
)

func stdBaseRoot() (string, bool, error) {
	if os.Getenv("VERIF_OUT") != "" && ev.NShards() > 1 {
		d := filepath.Join(ev.OutDir(), "c04-std")
		return d, true, os.MkdirAll(d, 0o755)
	}
	if stdPrivate == "" {
		d, err := os.MkdirTemp("", "c04-std-")
		if err != nil {
			return "", false, err
		}
		stdPrivate = d
	}
	return stdPrivate, false, nil
}

func dropPrivateStd() {
	stdMu.Lock()
	defer stdMu.Unlock()
	if stdPrivate != "" {
		os.RemoveAll(stdPrivate)
		stdPrivate = ""
		stdReady = map[string]string{}
	}
}

func stdKey(f Flags, http bool) string {
	g := f.Go
	if g == "" {
		g = "module"
	}
	return fmt.Sprintf("%s-%s-http%v-trimpath%v", g, f.GOOS, http, f.Trimpath)
}

// stdBase returns the directory of the std base cache for the flags, building it if needed.
func stdBase(f Flags, http bool) (string, error) {
	stdMu.Lock()
	defer stdMu.Unlock()
	key := stdKey(f, http)
	if d, ok := stdReady[key]; ok {
		return d, nil
	}
	root, shared, err := stdBaseRoot()
	if err != nil {
		return "", err
	}
	dir, lock, okf := filepath.Join(root, key), filepath.Join(root, key+".lock"), filepath.Join(root, key+".ok")
	build := func() error {
		src, err := os.MkdirTemp("", "c04-warm-")
		if err != nil {
			return err
		}
		defer os.RemoveAll(src)
		for name, content := range warmModule(http) {
			if err := os.WriteFile(filepath.Join(src, name), []byte(content), 0o644); err != nil {
				return err
			}
		}
		if err := os.MkdirAll(dir, 0o755); err != nil {
			return err
		}
		wf := Flags{Go: f.Go, GOOS: f.GOOS, Tests: true, Checks: "all", Trimpath: f.Trimpath}
		res, err := staticcheck(src, src, dir, wf)
		if err != nil {
			return err
		}
		if res.exit == 2 || strings.Contains(strings.Join(res.lines, "\n"), `"code":"compile"`) {
			return fmt.Errorf("linting the warm-up module (%s) failed: exit %d\n%s\n%s", wf, res.exit, strings.Join(res.lines, "\n"), res.stderr)
		}
		ev.Count("std_base_built", 1)
		ev.Count("staticcheck_runs", 1)
		return nil
	}
	if !shared {
		if err := build(); err != nil {
			return "", err
		}
		stdReady[key] = dir
		return dir, nil
	}
	if _, err := os.Stat(okf); err != nil {
		if err := os.Mkdir(lock, 0o755); err == nil {
			if err := build(); err != nil {
				os.WriteFile(filepath.Join(root, key+".err"), []byte(err.Error()), 0o644)
				return "", err
			}
			os.WriteFile(okf, []byte("ok"), 0o644)
		} else {
			ok := false
			for i := 0; i < 1200; i++ {
				if _, err := os.Stat(okf); err == nil {
					ok = true
					break
				}
				if b, err := os.ReadFile(filepath.Join(root, key+".err")); err == nil {
					return "", fmt.Errorf("another shard failed to build the std base %s: %s", key, b)
				}
				time.Sleep(250 * time.Millisecond)
			}
			if !ok {
				return "", fmt.Errorf("timed out waiting for another shard to build the std base %s", key)
			}
		}
	}
	stdReady[key] = dir
	return dir, nil
}

// mergeCache copies every cache entry of src that dst does not have yet.
func mergeCache(src, dst string) error {
	return filepath.WalkDir(src, func(p string, d fs.DirEntry, err error) error {
		if err != nil {
			return err
		}
		rel, _ := filepath.Rel(src, p)
		to := filepath.Join(dst, rel)
		if d.IsDir() {
			return os.MkdirAll(to, 0o755)
		}
		if _, err := os.Lstat(to); err == nil {
			return nil
		}
		in, err := os.Open(p)
		if err != nil {
			return err
		}
		defer in.Close()
		out, err := os.OpenFile(to, os.O_CREATE|os.O_EXCL|os.O_WRONLY, 0o644)
		if err != nil {
			return err
		}
		if _, err := io.Copy(out, in); err != nil {
			out.Close()
			return err
		}
		return out.Close()
	})
}

// ---------------------------------------------------------------- evaluating a history

type runInfo struct {
	Step        int      `json:"step"`
	Cmd         string   `json:"cmd"`
	Problems    int      `json:"problems"`
	Exit        int      `json:"exit"`
	HitPkgs     []string `json:"served_from_cache"`
	AnalysedPkg []string `json:"analysed_in_warm_run"`
}

type verdict struct {
	msg        string // violation
	infra      string
	failStep   int
	nontrivial bool
	classes    []string
	runs       []runInfo
	truncated  bool
	known      string
}

type disk struct {
	root  string
	files map[string]string
}

func (d *disk) sync(want map[string]string) error {
	for _, p := range sortedKeys(want) {
		if old, ok := d.files[p]; ok && old == want[p] {
			continue
		}
		full := filepath.Join(d.root, p)
		if err := os.MkdirAll(filepath.Dir(full), 0o755); err != nil {
			return err
		}
		if err := os.WriteFile(full, []byte(want[p]), 0o644); err != nil {
			return err
		}
	}
	for _, p := range sortedKeys(d.files) {
		if _, ok := want[p]; !ok {
			if err := os.Remove(filepath.Join(d.root, p)); err != nil {
				return err
			}
		}
	}
	d.files = want
	return nil
}

func diffLines(a, b []string) (onlyA, onlyB []string) {
	cnt := map[string]int{}
	for _, l := range a {
		cnt[l]++
	}
	for _, l := range b {
		if cnt[l] > 0 {
			cnt[l]--
		} else {
			onlyB = append(onlyB, l)
		}
	}
	for _, l := range a {
		if cnt[l] > 0 {
			cnt[l]--
			onlyA = append(onlyA, l)
		}
	}
	return
}

func topLines(ls []string) string {
	var out []string
	for _, l := range ls {
		if strings.Contains(l, `"file":"$D/m/top/`) || strings.Contains(l, `"file":"$D/alt/m/top/`) {
			out = append(out, l)
		}
	}
	return strings.Join(out, "\n")
}

func describe(h *History, upto int) string {
	var sb strings.Builder
	ib, _ := jsonMarshal(h.Init)
	fmt.Fprintf(&sb, "initial state: %s\n", ib)
	for i, a := range h.Actions {
		if i > upto {
			break
		}
		fmt.Fprintf(&sb, "  %2d. %s\n", i, a)
	}
	return sb.String()
}

// evaluate replays the history on a fresh directory. logf may be nil.
func evaluate(h *History, logf func(string, ...any)) (v verdict) {
	v.failStep = -1
	if logf == nil {
		logf = func(string, ...any) {}
	}
	root, err := os.MkdirTemp("", "c04-")
	if err != nil {
		v.infra = err.Error()
		return
	}
	defer os.RemoveAll(root)
	persist := filepath.Join(root, "cache-persistent")
	os.MkdirAll(persist, 0o755)
	merged := map[string]bool{}
	dk := &disk{root: root, files: map[string]string{}}
	st := h.Init.clone()
	if err := dk.sync(st.Tree.render()); err != nil {
		v.infra = err.Error()
		return
	}
	var snaps []State
	var outs [][]string
	var exits []int
	classes := map[string]bool{}
	changedBefore := false // the cold output changed between two runs of this history
	memo := map[string]*runOut{}
	touchN := 0
	for i, a := range h.Actions {
		classes["action_"+a.Kind] = true
		switch a.Kind {
		case "flag":
			classes["action_flag_"+a.Name] = true
		case "conf":
			classes["action_conf_"+a.Name] = true
			if a.Conf == nil {
				classes["action_conf_remove"] = true
			} else if a.Conf.Broken {
				classes["action_conf_broken"] = true
			}
		case "toggle":
			if depFactToggles[a.Name] {
				classes["action_toggle_dep_fact"] = true
			}
			if strings.HasPrefix(a.Name, "top_") {
				classes["action_toggle_target_file"] = true
			}
		}
		if a.Kind == "touch" {
			memo = map[string]*runOut{}
			p := filepath.Join(root, st.Tree.modDir(), a.Name)
			if _, err := os.Stat(p); err == nil {
				if a.Val == "rewrite" {
					if b, err := os.ReadFile(p); err == nil {
						os.WriteFile(p, b, 0o644)
					}
				} else {
					touchN++
					t := time.Now().Add(time.Duration(touchN) * time.Hour)
					os.Chtimes(p, t, t)
				}
			}
			continue
		}
		if a.Kind != "run" {
			st = apply(st, a, snaps)
			if err := dk.sync(st.Tree.render()); err != nil {
				v.infra = err.Error()
				return
			}
			continue
		}
		if len(snaps) > 0 && ev.PastDeadline() {
			v.truncated = true
			break
		}
		// ---- RUN
		base, err := stdBase(st.Flags, st.Tree.HTTP)
		if err != nil {
			v.infra = "std base: " + err.Error()
			return
		}
		if k := stdKey(st.Flags, st.Tree.HTTP); !merged[k] {
			if err := mergeCache(base, persist); err != nil {
				v.infra = "copying the std base: " + err.Error()
				return
			}
			merged[k] = true
		}
		warm, err := staticcheck(filepath.Join(root, st.Tree.modDir()), root, persist, st.Flags)
		if err != nil {
			v.infra = err.Error()
			return
		}
		ev.Count("staticcheck_runs", 1)
		// The reference output of an identical (tree, flags) state seen earlier in
		// this history is reused (dropped after every touch action); a mismatch
		// is always re-examined with a new cold run below.
		cold := memo[st.key()]
		if cold == nil {
			fresh, err := os.MkdirTemp(root, "cache-fresh-")
			if err != nil {
				v.infra = err.Error()
				return
			}
			if err := mergeCache(base, fresh); err != nil {
				v.infra = "copying the std base: " + err.Error()
				return
			}
			cold, err = staticcheck(filepath.Join(root, st.Tree.modDir()), root, fresh, st.Flags)
			if err != nil {
				v.infra = err.Error()
				return
			}
			os.RemoveAll(fresh)
			ev.Count("staticcheck_runs", 1)
			memo[st.key()] = cold
		} else {
			ev.Count("run_reference_output_reused_from_identical_earlier_state", 1)
		}
		ev.Count("runs", 1)

		var hit, analysed []string
		for id := range cold.analysed {
			if !isModulePkg(id) {
				ev.Count("std_package_analysed_in_cold_run", 1)
				continue
			}
			if !warm.analysed[id] {
				hit = append(hit, id)
			}
		}
		for id := range warm.analysed {
			if isModulePkg(id) {
				analysed = append(analysed, id)
			}
		}
		sort.Strings(hit)
		sort.Strings(analysed)
		nmod := 0
		for id := range cold.analysed {
			if isModulePkg(id) {
				nmod++
			}
		}
		switch {
		case nmod == 0:
			ev.Count("run_without_analysed_module_package", 1)
		case len(hit) == nmod:
			ev.Count("run_warm_all_from_cache", 1)
		case len(hit) > 0:
			ev.Count("run_warm_some_from_cache", 1)
		default:
			ev.Count("run_warm_nothing_from_cache", 1)
		}
		if cold.exit == 2 || warm.exit == 2 {
			ev.Count("run_exit_status_2", 1)
		}
		if len(cold.lines) == 0 {
			ev.Count("run_without_problems", 1)
		}
		for _, l := range cold.lines {
			if strings.Contains(l, `"code":"compile"`) {
				ev.Count("run_with_compile_error", 1)
				break
			}
		}
		for _, l := range cold.lines {
			if strings.Contains(l, `"code":"config"`) {
				ev.Count("run_with_config_error", 1)
				break
			}
		}
		key := st.key()
		n := len(snaps)
		sameAsPrev := n > 0 && snaps[n-1].key() == key
		if n > 0 {
			if strings.Join(outs[n-1], "\n") != strings.Join(cold.lines, "\n") || exits[n-1] != cold.exit {
				changedBefore = true
				ev.Count("run_output_changed_since_previous_run", 1)
				classes["output_changed_between_runs"] = true
			}
			if sameAsPrev {
				ev.Count("run_same_state_as_previous_run", 1)
			} else {
				for j := 0; j < n-1; j++ {
					if snaps[j].key() == key {
						ev.Count("run_after_revert_to_earlier_state", 1)
						classes["revert_to_earlier_state_then_run"] = true
						if len(hit) > 0 {
							classes["revert_to_earlier_state_then_run_served_from_cache"] = true
						}
						break
					}
				}
			}
			// fact flips in dep
			prev := snaps[n-1]
			flip, other := false, prev.Flags != st.Flags || prev.Tree.GoMod != st.Tree.GoMod || prev.Tree.Alt != st.Tree.Alt || fmt.Sprint(prev.Tree.Conf) != fmt.Sprint(st.Tree.Conf)
			for _, name := range toggles {
				if prev.Tree.On[name] != st.Tree.On[name] {
					if depFactToggles[name] {
						flip = true
					} else {
						other = true
					}
				}
			}
			if flip && topLines(outs[n-1]) != topLines(cold.lines) {
				ev.Count("run_dep_fact_flip_changed_problems_of_top", 1)
				classes["dep_fact_flip_changed_problems_of_top"] = true
				if !other {
					ev.Count("run_only_dep_fact_flip_changed_problems_of_top", 1)
					classes["only_dep_fact_flip_changed_problems_of_top"] = true
				}
			}
		}
		if len(hit) > 0 && changedBefore {
			v.nontrivial = true
		}
		snaps = append(snaps, st.clone())
		outs = append(outs, cold.lines)
		exits = append(exits, cold.exit)
		v.runs = append(v.runs, runInfo{Step: i, Cmd: st.Flags.String(), Problems: len(cold.lines), Exit: cold.exit, HitPkgs: hit, AnalysedPkg: analysed})
		logf("step %d: %s: %d problems, exit %d, served from cache %v, analysed %v (warm %.1fs, cold %.1fs)", i, st.Flags, len(cold.lines), cold.exit, hit, analysed, warm.dur.Seconds(), cold.dur.Seconds())

		if strings.Join(warm.lines, "\n") != strings.Join(cold.lines, "\n") || warm.exit != cold.exit {
			// is the cold output a function of the inputs at all?
			fresh2, err := os.MkdirTemp(root, "cache-fresh-")
			if err == nil {
				mergeCache(base, fresh2)
				cold2, err2 := staticcheck(filepath.Join(root, st.Tree.modDir()), root, fresh2, st.Flags)
				os.RemoveAll(fresh2)
				if err2 == nil && (strings.Join(cold2.lines, "\n") != strings.Join(cold.lines, "\n") || cold2.exit != cold.exit) {
					a, b := diffLines(cold.lines, cold2.lines)
					ev.Count("cold_output_not_deterministic", 1)
					ev.Extra("cold_output_not_deterministic_example", fmt.Sprintf("%s\nonly in 1st cold run: %v\nonly in 2nd cold run: %v", describe(h, i), a, b))
					v.infra = ""
					v.classes = sortedKeys(classes)
					v.truncated = true
					return
				}
			}
			// finding trimpath-second-checkout: under -trimpath the entries written in
			// the other checkout are served, with the other checkout's file names
			if sig := "trimpath-second-checkout"; st.Flags.Trimpath && warm.exit == cold.exit && ev.IsKnown(sig) {
				other := false
				for _, sn := range snaps {
					other = other || (sn.Flags.Trimpath && sn.Tree.Alt != st.Tree.Alt)
				}
				norm := func(ls []string) string {
					out := make([]string, len(ls))
					for i, l := range ls {
						out[i] = strings.ReplaceAll(l, "$D/alt/m/", "$D/m/")
					}
					sort.Strings(out)
					return strings.Join(out, "\n")
				}
				if other && norm(warm.lines) == norm(cold.lines) {
					ev.KnownFinding(sig, "with GOFLAGS=-trimpath a second checkout of the same module that shares the cache gets the problems of the first checkout, located in the first checkout's files")
					logf("step %d: KNOWN-FINDING %s", i, sig)
					v.known = sig
					v.truncated = true
					v.classes = sortedKeys(classes)
					return
				}
			}
			onlyWarm, onlyCold := diffLines(warm.lines, cold.lines)
			var sb strings.Builder
			fmt.Fprintf(&sb, "history (module %s in $D/%s, one persistent STATICCHECK_CACHE):\n%s", modPath, st.Tree.modDir(), describe(h, i))
			fmt.Fprintf(&sb, "at step %d, `%s`\n  with the persistent cache: exit %d, %d problems (packages analysed: %v; served from the cache: %v)\n  with an empty cache:       exit %d, %d problems\n", i, st.Flags, warm.exit, len(warm.lines), analysed, hit, cold.exit, len(cold.lines))
			fmt.Fprintf(&sb, "reported only with the persistent cache (%d):\n", len(onlyWarm))
			for _, l := range onlyWarm {
				fmt.Fprintf(&sb, "  %s\n", l)
			}
			fmt.Fprintf(&sb, "reported only with the empty cache (%d):\n", len(onlyCold))
			for _, l := range onlyCold {
				fmt.Fprintf(&sb, "  %s\n", l)
			}
			if warm.stderr != cold.stderr {
				fmt.Fprintf(&sb, "stderr with the persistent cache: %q\nstderr with the empty cache: %q\n", warm.stderr, cold.stderr)
			}
			v.msg = sb.String()
			v.failStep = i
			break
		}
		if warm.stderr != cold.stderr {
			// warnings are not problems: counted, not judged
			ev.Count("run_stderr_differs_between_warm_and_cold", 1)
		}
	}
	v.classes = sortedKeys(classes)
	return
}
