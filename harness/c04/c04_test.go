// Package c04 checks property C04: a staticcheck run that reuses a cache
// populated by any earlier history of runs, source edits, configuration edits
// and flag changes reports exactly what a run with an empty cache reports.
package c04

import (
	"encoding/json"
	"fmt"
	"os"
	"path/filepath"
	"sort"
	"testing"
	"time"

	"pgregory.net/rapid"
	"verif/harness/internal/ev"
)

func TestMain(m *testing.M) { ev.Main(m) }

const rule = "case = a history: an initial module example.com/m (dep; mid imports dep; top imports mid and optionally dep; 18 toggles drawn for the initial tree, optionally a staticcheck.conf and non-default flags) followed by <= N actions drawn from {RUN; toggle one of 18 triggers (4 of them flip a fact exported by dep - deprecation of a function / of a method that top reaches through mid only, purity, nilness - without changing dep's API, line numbers or export data; others: padding lines that shift positions, body-only edit, type error in dep, triggers in mid and in the target file, a //lint:ignore directive, a dot-import file, in-package and external test files, files behind //go:build special and _windows.go, two pairs of tag/GOOS-selected files in dep that flip a fact); write/remove staticcheck.conf at parent dir | module root | dep | mid | top (checks, initialisms, dot_import_whitelist, http_status_code_whitelist, each absent or from a menu with and without \"inherit\"; 5% invalid TOML); set -go (module, 1.23..1.26) | -tags special | -tests | -checks | GOOS (linux, windows) | package patterns (./... or subsets, so that dependencies are analysed for facts only) | GOFLAGS=-trimpath; change the go directive of go.mod; move the module directory (second checkout); revert tree and/or flags to the state of an earlier run; touch a file (mtime or rewrite, same bytes)}; the first and the last action are RUN, at least one RUN in between. Every RUN executes the real staticcheck binary twice with -f json: with the persistent STATICCHECK_CACHE of the history and with a cache holding nothing about the module; stdout as a sorted multiset of lines and the exit status must be equal. non-trivial = the history contains a RUN in which the persistent cache served >= 1 package of the module (no analyzer measurement for it in -debug.measure-analyzers) after the cold output had changed between two runs of the history; distinct by hash of the whole history"

func jsonMarshal(v any) ([]byte, error) { return json.Marshal(v) }

func record(h *History, v verdict, js []byte) {
	cl := append([]string{}, v.classes...)
	if v.truncated {
		cl = append(cl, "history_cut_short")
	}
	cl = append(cl, fmt.Sprintf("history_with_%d_runs", len(v.runs)))
	ev.Case(ev.Hash(string(js)), v.nontrivial, cl...)
}

// TestCorpus runs first: the saved histories are the regression cases of every
// sensitivity mutation and finding; they must not be starved by the soft deadline.
func TestCorpus(t *testing.T) {
	// every history costs several staticcheck runs: the files are spread over the shards
	files, _ := filepath.Glob(filepath.Join(os.Getenv("VERIF_ROOT"), "corpus", "C04", "*.json"))
	sort.Strings(files)
	for i, f := range files {
		if i%ev.NShards() != ev.Shard() {
			continue
		}
		replayFile(t, f, "TestCorpus")
	}
}

func TestHistories(t *testing.T) {
	ev.Rule(rule)
	ev.Assume("the cold reference run does not start from a literally empty directory but from a copy of a 'std base' cache: the result of linting a different module (example.com/warm, same standard-library imports, same -go and GOOS) with the same binary. Cache keys contain the package path, so the base holds no entry for any package of the module under test; those are always analysed from scratch in the reference run (checked: every module package must appear in the analyzer measurements of the cold run or the run is counted). The persistent cache receives the same base before the first run with a given (-go, GOOS); this is a history in which the user linted another module before")
	ev.Assume("the Go build cache (GOCACHE) is shared by both runs and is not under test; CGO_ENABLED=0, GOFLAGS=-mod=mod, GOMAXPROCS=4 for every run; GODEBUG and GOCACHEPROG are removed from the environment")
	ev.Assume("-go stays >= 1.23: with lower values the standard library itself fails to type-check on this toolchain (known finding std-fails-under-low-go-flag of C20; with -go 1.22 it is reflect, slices and go/build/constraint, imported by every test binary, that fail with \"requires go1.23 or later\")")
	ev.Assume("a history uses either -trimpath or a moved module directory, never both: that combination violates the property on the unchanged tree (finding trimpath-second-checkout, corpus/C04/finding-trimpath-second-checkout.json*); the excluded draws are counted; C04_TRIMPATH_AND_MOVE=1 lifts the exclusion; when the finding is listed as known in known_findings.json (sig trimpath-second-checkout) its exact signature - outputs equal after mapping the file names of one checkout to the other - is counted as KNOWN-FINDING instead of a violation")
	ev.Assume("the reference (cold) output of a (tree, flags) state that occurred earlier in the same history is reused instead of recomputed (dropped after every touch action); every mismatch is re-examined with a new cold run")
	ev.Assume("only stdout (the problems) and the exit status are compared; stderr (warnings) differences are counted")
	ev.Assume("if warm and cold differ, the cold run is repeated with another fresh cache; if the two cold runs differ from each other the case is counted as cold_output_not_deterministic and not judged")
	maxSteps := ev.EnvInt("C04_STEPS", 6, 10)
	allowHTTP := ev.EnvInt("C04_HTTP", 0, 1) == 1
	both := ev.EnvInt("C04_TRIMPATH_AND_MOVE", 0, 0) == 1
	ev.Extra("max_steps", maxSteps)
	ev.Check(t, "TestHistories", func(rt *rapid.T) {
		h := genHistory(rt, maxSteps, allowHTTP, both)
		js, _ := json.Marshal(h)
		ev.Begin("TestHistories", "json", js)
		v := evaluate(h, nil)
		if v.infra != "" {
			ev.Infra("%s (history %s)", v.infra, js)
			rt.Skip(v.infra)
		}
		record(h, v, js)
		if v.msg != "" {
			// everything after the failing run is irrelevant; then a bounded greedy
			// minimisation (rapid's own shrinking gets only a few of these expensive evaluations)
			small, msg := minimise(&History{Init: h.Init, Actions: h.Actions[:v.failStep+1]}, v.msg)
			js2, _ := json.Marshal(small)
			// rapid keeps shrinking after this; the smallest failing history seen wins
			if bestJS == nil || len(js2) < len(bestJS) {
				bestJS, bestMsg = js2, msg
			}
			ev.Begin("TestHistories", "json", bestJS)
			ev.Failf(rt, "TestHistories", "%s", bestMsg)
		}
		if v.nontrivial && ev.WantSample() {
			var acts []string
			for _, a := range h.Actions {
				acts = append(acts, a.String())
			}
			ev.Sample(map[string]any{"init": h.Init, "actions": acts, "runs": v.runs})
		}
	})
}

// minimise greedily removes actions, initial toggles, configuration files and
// non-default flags while the history still fails; bounded by evaluations and time.
func minimise(h *History, msg string) (*History, string) {
	if minimising {
		return h, msg // rapid is re-running the shrunk case
	}
	minimising = true
	start := time.Now()
	evals := 0
	try := func(c *History) bool {
		if evals >= 24 || time.Since(start) > 150*time.Second {
			return false
		}
		evals++
		v := evaluate(c, nil)
		if v.msg == "" || v.infra != "" {
			return false
		}
		h = &History{Init: c.Init, Actions: c.Actions[:v.failStep+1]}
		msg = v.msg
		return true
	}
	cp := func() *History {
		b, _ := json.Marshal(h)
		var c History
		json.Unmarshal(b, &c)
		c.Init = c.Init.clone()
		return &c
	}
	for i := len(h.Actions) - 2; i >= 0; i-- {
		if i >= len(h.Actions)-1 {
			continue
		}
		c := cp()
		c.Actions = append(c.Actions[:i], c.Actions[i+1:]...)
		try(c)
	}
	for _, name := range sortedKeys(h.Init.Tree.On) {
		c := cp()
		delete(c.Init.Tree.On, name)
		try(c)
	}
	for _, level := range sortedKeys(h.Init.Tree.Conf) {
		c := cp()
		delete(c.Init.Tree.Conf, level)
		try(c)
	}
	def := Flags{Go: "module", Tests: true, GOOS: "linux"}
	if h.Init.Flags != def {
		c := cp()
		c.Init.Flags = def
		if !try(c) {
			for _, f := range []func(*Flags){func(f *Flags) { f.Go = def.Go }, func(f *Flags) { f.Checks = "" }, func(f *Flags) { f.Pattern = "" }, func(f *Flags) { f.Tags = false }, func(f *Flags) { f.Tests = true }, func(f *Flags) { f.Trimpath = false }} {
				c := cp()
				f(&c.Init.Flags)
				if c.Init.Flags != h.Init.Flags {
					try(c)
				}
			}
		}
	}
	ev.Count("minimisation_evaluations", evals)
	return h, msg
}

var (
	minimising bool
	bestJS     []byte
	bestMsg    string
)

func replayFile(t *testing.T, f, test string) {
	b, err := os.ReadFile(f)
	if err != nil {
		ev.Infra("read %s: %v", f, err)
		return
	}
	var h History
	if err := json.Unmarshal(b, &h); err != nil {
		ev.Infra("decode %s: %v", f, err)
		return
	}
	v := evaluate(&h, t.Logf)
	if v.infra != "" {
		ev.Infra("replay %s: %s", f, v.infra)
		return
	}
	record(&h, v, b)
	if v.msg != "" {
		ev.Violate(test, fmt.Sprintf("replay of %s:\n%s", f, v.msg), "json", b)
		t.Errorf("%s", v.msg)
	} else if v.known != "" {
		t.Logf("replay %s: KNOWN-FINDING %s", f, v.known)
	} else {
		t.Logf("replay %s: property holds (%d runs)", f, len(v.runs))
	}
}

func TestReplay(t *testing.T) {
	if f := ev.ReplayFile(); f != "" {
		defer dropPrivateStd() // replay mode runs this test alone
		replayFile(t, f, "TestReplay")
	}
}

// TestDump writes the module of the initial state of one generated history to
// $C04_DUMP (debugging aid; inert otherwise).
func TestDump(t *testing.T) {
	dir := os.Getenv("C04_DUMP")
	if dir == "" {
		return
	}
	h := rapid.Custom(func(rt *rapid.T) *History { return genHistory(rt, 10, false, false) }).Example(int(ev.Seed()))
	dk := &disk{root: dir, files: map[string]string{}}
	if err := dk.sync(h.Init.Tree.render()); err != nil {
		t.Fatal(err)
	}
	js, _ := json.MarshalIndent(h, "", " ")
	os.WriteFile(filepath.Join(dir, "history.json"), js, 0o644)
}

// TestZZCleanup runs last and removes the private std base of a stand-alone run.
func TestZZCleanup(t *testing.T) { dropPrivateStd() }
