package c04

import (
	"encoding/json"
	"fmt"
	"sort"
	"strings"

	"pgregory.net/rapid"
	"verif/harness/internal/ev"
)

// ---------------------------------------------------------------- state

// Flags are the command line and environment of one staticcheck run.
type Flags struct {
	Go     string `json:"go"`     // "module" or "1.N" (N >= 23, see the assumptions)
	Tags   bool   `json:"tags"`   // -tags special
	Tests  bool   `json:"tests"`  // -tests
	Checks string `json:"checks"` // "" = flag not passed
	GOOS   string `json:"goos"`   // linux | windows
	// Pattern: package patterns of the run; "" = ./... (packages named only as
	// dependencies are analysed for their facts alone)
	Pattern string `json:"pattern,omitempty"`
	// Trimpath adds -trimpath to GOFLAGS (Go's build IDs then do not depend on the directory)
	Trimpath bool `json:"trimpath,omitempty"`
}

// Conf is one staticcheck.conf. A nil list means the key is absent.
type Conf struct {
	Broken      bool      `json:"broken,omitempty"` // not valid TOML
	Checks      *[]string `json:"checks,omitempty"`
	Initialisms *[]string `json:"initialisms,omitempty"`
	Dot         *[]string `json:"dot_import_whitelist,omitempty"`
	HTTP        *[]string `json:"http_status_code_whitelist,omitempty"`
}

// Tree describes the generated module: every source file is a function of
// the toggles, every staticcheck.conf is listed explicitly.
type Tree struct {
	GoMod string          `json:"gomod"` // go directive
	HTTP  bool            `json:"http,omitempty"`
	Alt   bool            `json:"alt,omitempty"` // the module directory is $D/alt/m instead of $D/m (a second checkout of the same sources)
	On    map[string]bool `json:"on"`            // toggles that are set (absent = false)
	Conf  map[string]Conf `json:"conf"`          // level -> content; levels: parent, root, dep, mid, top
}

type State struct {
	Tree  Tree  `json:"tree"`
	Flags Flags `json:"flags"`
}

func (s State) clone() State {
	b, _ := json.Marshal(s)
	var c State
	json.Unmarshal(b, &c)
	if c.Tree.On == nil {
		c.Tree.On = map[string]bool{}
	}
	if c.Tree.Conf == nil {
		c.Tree.Conf = map[string]Conf{}
	}
	return c
}

func (s State) key() string {
	c := s.clone()
	for k, v := range c.Tree.On {
		if !v {
			delete(c.Tree.On, k)
		}
	}
	b, _ := json.Marshal(c)
	return string(b)
}

// Action is one step of a history.
type Action struct {
	Kind string `json:"kind"`           // run | toggle | conf | flag | gomod | revert | touch | move
	Name string `json:"name,omitempty"` // toggle name | conf level | flag name | revert mode (all|tree|flags) | touched file
	Val  string `json:"val,omitempty"`  // flag value | go directive | touch mode (mtime|rewrite)
	Conf *Conf  `json:"conf,omitempty"` // conf: new content, nil = remove the file
	N    int    `json:"n,omitempty"`    // revert: index of the earlier run (modulo the number of runs so far)
}

func (a Action) String() string {
	switch a.Kind {
	case "run":
		return "RUN"
	case "toggle":
		return "toggle " + a.Name
	case "conf":
		if a.Conf == nil {
			return "remove staticcheck.conf at " + a.Name
		}
		return "write staticcheck.conf at " + a.Name + ": " + strings.ReplaceAll(strings.TrimSpace(a.Conf.render()), "\n", "; ")
	case "flag":
		return "set " + a.Name + "=" + a.Val
	case "gomod":
		return "set go directive of go.mod to " + a.Val
	case "revert":
		return fmt.Sprintf("revert %s to the state of the run %d before the latest one (cyclically)", a.Name, a.N%16+1)
	case "touch":
		return "touch (" + a.Val + ") " + a.Name
	case "move":
		return "move the module directory ($D/m <-> $D/alt/m)"
	}
	return a.Kind
}

type History struct {
	Init    State    `json:"init"`
	Actions []Action `json:"actions"`
}

// ---------------------------------------------------------------- catalogue

// toggles: name -> what flips. Fact toggles keep the number of lines (and so
// every position and the export data of dep) identical.
var toggles = []string{
	"dep_deprecated",        // dep.Old: "Deprecated:" paragraph <-> plain paragraph     (SA1019 in mid/top)
	"dep_deprecated_method", // (*dep.T).OldM likewise; top reaches it through mid only  (SA1019 in top)
	"dep_impure",            // dep.Pure writes a global                                 (SA4017 in mid/top, purity propagates through mid.Twice)
	"dep_maybe_nil",         // dep.Never returns nil on one path                        (SA4023 in mid/top, nilness propagates through mid.Wrap)
	"dep_pad",               // two comment lines shift every position in dep.go
	"dep_body",              // constant in an unexported function body
	"dep_broken",            // type error in dep
	"dep_go126",             // dep/new126.go uses new(expr), which needs go1.26: dep stops compiling under a lower -go or go directive
	"mid_pad",               // two comment lines shift every position in mid.go
	"mid_uses_old",          // mid calls dep.Old
	"mid_sa4000",            // an SA4000 trigger in mid
	"top_sa4000",            // an SA4000 trigger in the target file
	"top_ignore",            // a //lint:ignore SA4000 directive on that trigger (or on nothing)
	"top_imports_dep",       // top imports dep directly and calls dep.Old
	"top_dot",               // top/dot.go with a dot import of dep exists (ST1001)
	"top_test_problem",      // SA4000 in the in-package test file
	"ext_test",              // an external test package exists
	"special_problem",       // SA4000 in mid/special.go (//go:build special)
	"windows_problem",       // SA4000 in top/w_windows.go
}

var depFactToggles = map[string]bool{"dep_deprecated": true, "dep_deprecated_method": true, "dep_impure": true, "dep_maybe_nil": true}

var confLevels = []string{"root", "top", "dep", "mid", "parent", "lib"}

func lst(xs ...string) *[]string {
	l := append([]string{}, xs...) // never nil: an empty list is written as `key = []`, absence is a nil pointer
	return &l
}

var (
	menuChecks = []*[]string{nil, lst("all"), lst("inherit", "-SA1019"), lst("inherit", "ST1003"), lst("SA*", "U1000"), lst("inherit", "-U1000"), lst("all", "-ST1000", "-SA4017"), lst("inherit", "-SA4023", "-ST1001"), lst()}
	menuInit   = []*[]string{nil, lst("inherit", "FOO"), lst(), lst("FOO"), lst("inherit")}
	menuDot    = []*[]string{nil, lst("example.com/m/dep"), lst("inherit", "example.com/m/dep"), lst()}
	menuHTTP   = []*[]string{nil, lst("200"), lst("inherit", "418"), lst()}

	flagNames  = []string{"go", "tags", "tests", "checks", "goos", "pattern", "trimpath"}
	patterns   = []string{"", "./top", "./dep ./mid", "./mid/... ./top", "./... example.com/lib", "example.com/lib ./top"}
	goValues   = []string{"module", "1.23", "1.24", "1.25", "1.26"}
	chkValues  = []string{"", "all", "inherit,-SA1019", "SA*", "all,-U1000", "ST1003,SA4017,SA4023", "inherit,ST1003", "inherit,-SA4017,-ST1001"}
	goModVals  = []string{"1.26.0", "1.23", "1.24"}
	touchFiles = []string{"top/top.go", "dep/dep.go", "mid/mid.go", "go.mod", "staticcheck.conf", "top/staticcheck.conf", "top/top_test.go", "dep/tag_special.go"}
)

// ---------------------------------------------------------------- generators

// rng draws an integer of [lo, hi] with (nearly) equal probabilities. rapid's
// own integer generators strongly prefer small values, which is right for
// sizes but wrong for picking among alternatives, so a 64-bit draw is mixed
// first (0 stays lo, so that shrinking ends at the first alternative).
func rng(rt *rapid.T, label string, lo, hi int) int {
	if hi <= lo {
		return lo
	}
	v := rapid.Uint64().Draw(rt, label)
	if v == 0 {
		return lo
	}
	v ^= v >> 30
	v *= 0xbf58476d1ce4e5b9
	v ^= v >> 27
	v *= 0x94d049bb133111eb
	v ^= v >> 31
	return lo + int(v%uint64(hi-lo+1))
}

func pick[T any](rt *rapid.T, label string, xs []T) T {
	return xs[rng(rt, label, 0, len(xs)-1)]
}

func genConf(rt *rapid.T) *Conf {
	c := &Conf{}
	if rng(rt, "conf_broken", 0, 19) == 19 {
		c.Broken = true
		return c
	}
	// every key is absent in half of the files
	sel := func(label string, menu []*[]string) *[]string {
		if rng(rt, label+"_present", 0, 1) == 1 {
			return menu[rng(rt, label, 1, len(menu)-1)]
		}
		return nil
	}
	c.Checks = sel("conf_checks", menuChecks)
	c.Initialisms = sel("conf_initialisms", menuInit)
	c.Dot = sel("conf_dot", menuDot)
	c.HTTP = sel("conf_http", menuHTTP)
	return c
}

func genFlagAction(rt *rapid.T) Action {
	a := Action{Kind: "flag", Name: pick(rt, "flag", flagNames)}
	switch a.Name {
	case "go":
		a.Val = pick(rt, "go", goValues)
	case "tags":
		a.Val = pick(rt, "tags", []string{"special", ""})
	case "tests":
		a.Val = pick(rt, "tests", []string{"false", "true"})
	case "checks":
		a.Val = pick(rt, "checks", chkValues)
	case "goos":
		a.Val = pick(rt, "goos", []string{"windows", "linux"})
	case "pattern":
		a.Val = pick(rt, "pattern", patterns)
	case "trimpath":
		a.Val = pick(rt, "trimpath", []string{"true", ""})
	}
	return a
}

// genAction draws one action. The combination "-trimpath and a moved module
// directory in one history" is excluded by construction (finding
// trimpath-second-checkout, see the corpus): a history either may move
// (mode 1) or may use -trimpath (mode 2) unless both is set.
func genAction(rt *rapid.T, mode int, both bool) Action {
	a := genAction0(rt)
	if !both {
		if a.Kind == "move" && mode != 1 {
			ev.Count("excluded_by_construction_move_in_history_that_may_use_trimpath", 1)
			return Action{Kind: "toggle", Name: pick(rt, "toggle_instead", toggles)}
		}
		if a.Kind == "flag" && a.Name == "trimpath" && mode != 2 {
			ev.Count("excluded_by_construction_trimpath_in_history_that_may_move", 1)
			return Action{Kind: "flag", Name: "tests", Val: pick(rt, "tests_instead", []string{"false", "true"})}
		}
	}
	return a
}

func genAction0(rt *rapid.T) Action {
	switch k := rng(rt, "kind", 0, 24); {
	case k < 7:
		return Action{Kind: "run"}
	case k < 13:
		if rng(rt, "toggle_target", 0, 2) == 0 {
			// edits of the target package leave its dependencies cached
			return Action{Kind: "toggle", Name: pick(rt, "toggle_top", []string{"top_sa4000", "top_ignore", "top_imports_dep", "top_dot", "top_test_problem", "ext_test", "windows_problem"})}
		}
		return Action{Kind: "toggle", Name: pick(rt, "toggle", toggles)}
	case k < 17:
		a := Action{Kind: "conf", Name: pick(rt, "level", confLevels)}
		if rng(rt, "level_top", 0, 3) == 0 {
			a.Name = "top"
		}
		if rng(rt, "conf_remove", 0, 3) != 0 {
			a.Conf = genConf(rt)
		}
		return a
	case k < 20:
		return genFlagAction(rt)
	case k < 22:
		return Action{Kind: "revert", Name: pick(rt, "revert_mode", []string{"all", "tree", "flags"}), N: rng(rt, "revert_to", 0, 9)}
	case k < 23:
		return Action{Kind: "touch", Name: pick(rt, "touch_file", touchFiles), Val: pick(rt, "touch_mode", []string{"mtime", "rewrite"})}
	case k < 24:
		return Action{Kind: "gomod", Val: pick(rt, "gomod", goModVals)}
	default:
		return Action{Kind: "move"}
	}
}

func genHistory(rt *rapid.T, maxSteps int, allowHTTP, both bool) *History {
	h := &History{}
	st := State{Tree: Tree{GoMod: "1.26.0", On: map[string]bool{}, Conf: map[string]Conf{}}, Flags: Flags{Go: "module", Tests: true, GOOS: "linux"}}
	// initial module: a few toggles set, sometimes a configuration file and non-default flags
	for _, name := range toggles {
		p := 3
		if name == "dep_broken" {
			p = 15
		}
		if name == "dep_go126" {
			p = 5
		}
		if rng(rt, "init_"+name, 0, p) == p {
			st.Tree.On[name] = true
		}
	}
	if allowHTTP && rng(rt, "init_http", 0, 7) == 7 {
		st.Tree.HTTP = true
	}
	if rng(rt, "init_conf", 0, 2) == 2 {
		st.Tree.Conf[pick(rt, "init_conf_level", confLevels)] = *genConf(rt)
	}
	if rng(rt, "init_checks", 0, 2) == 2 {
		st.Flags.Checks = pick(rt, "init_checks_val", chkValues)
	}
	if rng(rt, "init_go", 0, 3) == 3 {
		st.Flags.Go = pick(rt, "init_go_val", goValues)
	}
	if rng(rt, "init_gomod", 0, 5) == 5 {
		st.Tree.GoMod = pick(rt, "init_gomod_val", goModVals)
	}
	mode := rng(rt, "mode", 1, 2)
	if mode == 2 && rng(rt, "init_trimpath", 0, 3) == 3 {
		st.Flags.Trimpath = true
	}
	if rng(rt, "init_pattern", 0, 5) == 5 {
		st.Flags.Pattern = pick(rt, "init_pattern_val", patterns)
	}
	h.Init = st
	// the first run populates the cache, the last action is a run
	h.Actions = append(h.Actions, Action{Kind: "run"})
	n := rng(rt, "steps", (maxSteps-1)/2, maxSteps-3)
	for i := 0; i < n; i++ {
		a := genAction(rt, mode, both)
		if a.Kind == "run" && h.Actions[len(h.Actions)-1].Kind == "run" && rng(rt, "rerun", 0, 3) != 0 {
			// two runs in a row are the cheapest history; keep them rare
			a = Action{Kind: "toggle", Name: pick(rt, "toggle_not_rerun", toggles)}
		}
		h.Actions = append(h.Actions, a)
	}
	// at least one run between the first and the last one
	mid := false
	for _, a := range h.Actions[1:] {
		mid = mid || a.Kind == "run"
	}
	if !mid && n >= 2 {
		at := rng(rt, "middle_run", 2, n)
		h.Actions = append(h.Actions[:at], append([]Action{{Kind: "run"}}, h.Actions[at:]...)...)
	}
	if h.Actions[len(h.Actions)-1].Kind != "run" {
		h.Actions = append(h.Actions, Action{Kind: "run"})
	}
	return h
}

// ---------------------------------------------------------------- applying actions (pure)

// apply returns the state after the action. snaps are the states of the earlier runs.
func apply(st State, a Action, snaps []State) State {
	st = st.clone()
	switch a.Kind {
	case "toggle":
		if st.Tree.On[a.Name] {
			delete(st.Tree.On, a.Name)
		} else {
			st.Tree.On[a.Name] = true
		}
	case "conf":
		if a.Conf == nil {
			delete(st.Tree.Conf, a.Name)
		} else {
			st.Tree.Conf[a.Name] = *a.Conf
		}
	case "flag":
		switch a.Name {
		case "go":
			st.Flags.Go = a.Val
		case "tags":
			st.Flags.Tags = a.Val != ""
		case "tests":
			st.Flags.Tests = a.Val == "true"
		case "checks":
			st.Flags.Checks = a.Val
		case "goos":
			st.Flags.GOOS = a.Val
		case "pattern":
			st.Flags.Pattern = a.Val
		case "trimpath":
			st.Flags.Trimpath = a.Val != ""
		}
	case "gomod":
		st.Tree.GoMod = a.Val
	case "move":
		st.Tree.Alt = !st.Tree.Alt
	case "revert":
		if len(snaps) == 0 {
			break
		}
		// N = 0 is the run before the latest one (the classic trap: run, edit, run, revert, run)
		old := snaps[(len(snaps)*16-2-a.N%16)%len(snaps)].clone()
		switch a.Name {
		case "tree":
			st.Tree = old.Tree
		case "flags":
			st.Flags = old.Flags
		default:
			st = old
		}
	}
	return st
}

// ---------------------------------------------------------------- rendering

func tomlList(key string, l *[]string, sb *strings.Builder) {
	if l == nil {
		return
	}
	var q []string
	for _, s := range *l {
		q = append(q, fmt.Sprintf("%q", s))
	}
	fmt.Fprintf(sb, "%s = [%s]\n", key, strings.Join(q, ", "))
}

func (c *Conf) render() string {
	if c.Broken {
		return "checks = [\n"
	}
	var sb strings.Builder
	tomlList("checks", c.Checks, &sb)
	tomlList("initialisms", c.Initialisms, &sb)
	tomlList("dot_import_whitelist", c.Dot, &sb)
	tomlList("http_status_code_whitelist", c.HTTP, &sb)
	return sb.String()
}

func alt(on bool, a, b string) string {
	if on {
		return a
	}
	return b
}

const modPath = "example.com/m"

// render returns every file below the history directory: the module lives in
// m/, the "parent" configuration file next to it.
func (t Tree) render() map[string]string {
	on := t.On
	f := map[string]string{}
	// the module requires a second module that lives next to it (replace directive); it can be
	// linted from here by import path and has a configuration file level of its own ("lib")
	f["m/go.mod"] = "module " + modPath + "\n\ngo " + t.GoMod + "\n\nrequire example.com/lib v0.0.0\n\nreplace example.com/lib => ../lib\n"
	f["lib/go.mod"] = "module example.com/lib\n\ngo 1.26.0\n"
	f["lib/lib.go"] = `// Package lib is a module of its own, replaced by a directory next to the main module.
package lib

import "errors"

// GetUserId is badly named if ID is an initialism.
func GetUserId() int { return 1 }

// Same compares x with itself.
func Same(x int) bool { return x == x }

// ErrLib has a capitalised message.
var ErrLib = errors.New("Lib failed.")
`
	f["m/top/uselib.go"] = `package top

import "example.com/lib"

// L is lib.Same.
var L = lib.Same
`

	pad := "\n// padding line one.\n// padding line two.\n"

	if on["dep_go126"] {
		f["m/dep/new126.go"] = "package dep\n\n// P points to 3 (new with an expression operand needs go1.26).\nvar P = new(3)\n"
	}
	f["m/dep/dep.go"] = "// Package dep is the leaf dependency.\npackage dep\n" + alt(on["dep_pad"], pad, "") + `
import "errors"

var counter int

// E is an error type.
type E struct{}

func (*E) Error() string { return "e" }

// T is a type with a method.
type T struct{ v int }

// OldM returns v.
//
// ` + alt(on["dep_deprecated_method"], "Deprecated: use NewM.", "It is fine to use OldM.") + `
func (t *T) OldM() int { return t.v }

// Old returns one.
//
// ` + alt(on["dep_deprecated"], "Deprecated: use New.", "It is fine to use Old.") + `
func Old() int { return 1 }

// New returns two.
func New() int { return 2 }

// Pure doubles x.
func Pure(x int) int {
	` + alt(on["dep_impure"], "counter = x + 1", "x = x + 1 - 1") + `
	return x * 2
}

// Never returns an error.
func Never(x int) error {
	if x > 0 {
		return errors.New("x")
	}
	return ` + alt(on["dep_maybe_nil"], "nil", "&E{}") + `
}

func internal() int { return ` + alt(on["dep_body"], "8", "7") + ` }

var _ = internal()
` + alt(on["dep_broken"], "\nvar _ int = \"not an int\"\n", "")

	f["m/dep/tag_special.go"] = `//go:build special

package dep

// Tagged returns three.
//
// Deprecated: use New.
func Tagged() int { return 3 }
`
	f["m/dep/tag_default.go"] = `//go:build !special

package dep

// Tagged returns three.
//
// It is fine to use Tagged.
func Tagged() int { return 3 }
`
	f["m/dep/sys_windows.go"] = `package dep

// Sys adds one.
func Sys(x int) int { return x + 1 }
`
	f["m/dep/sys_other.go"] = `//go:build !windows

package dep

// Sys adds one and counts.
func Sys(x int) int { counter = x; return x + 1 }
`

	f["m/mid/mid.go"] = "// Package mid sits between top and dep.\npackage mid\n" + alt(on["mid_pad"], pad, "") + `
import "` + modPath + `/dep"

// Get returns a T.
func Get() *dep.T { return &dep.T{} }

// Twice is pure iff dep.Pure is.
func Twice(x int) int { return dep.Pure(x) + dep.Pure(x) }

// Wrap returns what dep.Never returns.
func Wrap(x int) error { return dep.Never(x) }

// Sys forwards to dep.Sys.
func Sys(x int) int { return dep.Sys(x) }

// Tagged forwards to dep.Tagged.
func Tagged() int { return dep.Tagged() }

// Cmp compares.
func Cmp() bool { return dep.Never(1) != nil }

// Discard discards.
func Discard() { dep.Pure(1) }
` + alt(on["mid_uses_old"], "\n// UseOld calls dep.Old.\nfunc UseOld() int { return dep.Old() }\n", "") +
		alt(on["mid_sa4000"], "\n// Same compares x with itself.\nfunc Same(x int) bool { return x == x }\n", "")

	f["m/mid/special.go"] = `//go:build special

package mid

// Special is only built with -tags special.
func Special(x int) bool { return x == ` + alt(on["special_problem"], "x", "1") + ` }
`

	httpImp, httpFn := "", ""
	if t.HTTP {
		httpImp = "\t\"net/http\"\n"
		httpFn = "\n// Teapot uses a status code literal.\nfunc Teapot() string { return http.StatusText(418) + http.StatusText(200) }\n"
	}
	f["m/top/top.go"] = `// Package top is the target package.
package top

import (
` + httpImp + `	"runtime"

` + alt(on["top_imports_dep"], "\t\""+modPath+"/dep\"\n", "") + `	"` + modPath + `/mid"
)

// A discards the result of mid.Twice.
func A() { mid.Twice(3) }

// B compares the result of mid.Wrap with nil.
func B() bool { return mid.Wrap(1) != nil }

// C calls a method of dep that top reaches through mid.
func C() int { return mid.Get().OldM() }

// S discards the result of mid.Sys.
func S() { mid.Sys(1) }

// Root uses runtime.GOROOT, deprecated since go1.24.
func Root() string { return runtime.GOROOT() }

// GetUserId is badly named if ID is an initialism.
func GetUserId() int { return 1 }

// GetFooBar is badly named if FOO is an initialism.
func GetFooBar() int { return 1 }

func helper() int { return 3 }
` + httpFn + alt(on["top_imports_dep"], "\n// D calls dep.Old directly.\nfunc D() int { return dep.Old() }\n", "") +
		alt(on["top_sa4000"], "\n// Same compares x with itself.\nfunc Same(x int) bool {\n\t"+alt(on["top_ignore"], "//lint:ignore SA4000 on purpose", "// no directive here")+"\n\treturn x == x\n}\n",
			alt(on["top_ignore"], "\n// Other is fine.\nfunc Other(x int) bool {\n\t//lint:ignore SA4000 matches nothing\n\treturn x == 1\n}\n", ""))

	if on["top_dot"] {
		f["m/top/dot.go"] = `package top

import . "` + modPath + `/dep"

// N is dep.New().
var N = New()
`
	}
	f["m/top/w_windows.go"] = `package top

// Win is only built for windows.
func Win(x int) bool { return x == ` + alt(on["windows_problem"], "x", "1") + ` }
`
	f["m/top/top_test.go"] = `package top

var _ = helper()

func inTest(x int) bool { return x == ` + alt(on["top_test_problem"], "x", "1") + ` }
`
	if on["ext_test"] {
		f["m/top/ext_test.go"] = `package top_test

import "` + modPath + `/top"

var _ = top.C()

func extTest(x int) bool { return x == x }
`
	}
	for level, c := range t.Conf {
		p := ""
		switch level {
		case "parent":
			p = "staticcheck.conf"
		case "root":
			p = "m/staticcheck.conf"
		case "lib":
			p = "lib/staticcheck.conf"
		default:
			p = "m/" + level + "/staticcheck.conf"
		}
		f[p] = c.render()
	}
	if t.Alt {
		g := map[string]string{}
		for p, c := range f {
			if strings.HasPrefix(p, "m/") || strings.HasPrefix(p, "lib/") {
				p = "alt/" + p
			}
			g[p] = c
		}
		f = g
	}
	return f
}

// modDir is the module directory below the history directory.
func (t Tree) modDir() string {
	if t.Alt {
		return "alt/m"
	}
	return "m"
}

// warmModule imports the standard library packages the generated module
// imports (plus what a test binary needs); linting it fills the std base cache.
func warmModule(http bool) map[string]string {
	imp, use := "", ""
	if http {
		imp, use = "\t\"net/http\"\n", "\n// S is a status text.\nvar S = http.StatusText(200)\n"
	}
	return map[string]string{
		"go.mod": "module example.com/warm\n\ngo 1.26.0\n",
		"w.go": `// Package warm imports what the generated module imports.
package warm

import (
	"errors"
` + imp + `	"runtime"
)

// E is an error.
var E = errors.New(runtime.GOOS)
` + use,
		"w_test.go": "package warm\n\nvar _ = E\n",
	}
}

func sortedKeys[V any](m map[string]V) []string {
	var ks []string
	for k := range m {
		ks = append(ks, k)
	}
	sort.Strings(ks)
	return ks
}
