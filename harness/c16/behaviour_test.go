package c16

import (
	"bytes"
	"context"
	"fmt"
	"go/ast"
	"go/parser"
	"go/token"
	"os"
	"os/exec"
	"path/filepath"
	"regexp"
	"strings"
	"sync"
	"time"

	"golang.org/x/tools/go/analysis"
	"honnef.co/go/tools/lintcmd/runner"
	"verif/harness/internal/ev"
	"verif/harness/internal/rn"
)

// instMeta is what the generator knows about an instance file (nil when replaying).
type instMeta struct {
	check, shape string
	holes        bool // tracing call, multi-line or lower-precedence operand in a hole
	alias        int
}

var (
	sqOnce      sync.Once
	sqAnalyzers []*analysis.Analyzer
)

// simpleAndQuickfix returns the S and QF analyzers.
func simpleAndQuickfix() []*analysis.Analyzer {
	sqOnce.Do(func() {
		for _, a := range rn.Analyzers(true) {
			if strings.HasPrefix(a.Name, "S1") || strings.HasPrefix(a.Name, "QF") {
				sqAnalyzers = append(sqAnalyzers, a)
			}
		}
	})
	return sqAnalyzers
}

var funcNameRe = regexp.MustCompile(`(?m)^func (F\d+)\(`)

// resultCount returns the number of results of the function named name in src.
func resultCount(src []byte, name string) (int, bool) {
	f, err := parser.ParseFile(token.NewFileSet(), "x.go", src, parser.SkipObjectResolution)
	if err != nil {
		return 0, false
	}
	for _, d := range f.Decls {
		fd, ok := d.(*ast.FuncDecl)
		if !ok || fd.Name.Name != name || fd.Recv != nil {
			continue
		}
		n := 0
		if fd.Type.Results != nil {
			for _, fl := range fd.Type.Results.List {
				if len(fl.Names) == 0 {
					n++
				} else {
					n += len(fl.Names)
				}
			}
		}
		return n, true
	}
	return 0, false
}

type variant struct {
	fn      string // F3
	name    string // F3_v0
	check   string
	fixMsg  string
	diagMsg string
	file    string // orig file (base name)
	patched string // patched function file, before import adjustment and renaming
	results int
}

const mainTemplate = `package main

import (
	"fmt"
	"runtime"

	fixed "t/fixed"
	orig "t/orig"
)

type vec struct {
	a, b int
	s, t string
	h    bool
	xs   []int
	m    map[string]int
	bs   []byte
	e    error
	fl   float64
	v    any
}

type myErr struct{}

func (myErr) Error() string { return "myErr" }

func mk(i int) vec {
	ints := []int{0, 1, -1, 2, 3, 7, 1 << 62, -1 << 63, 5, -4}
	strs := []string{"", "a", "ab", "é", "abcabc", "b-a", "%d"}
	slices := [][]int{nil, {}, {1}, {1, 2, 3}, {4, 5, 6, 7, 8}}
	maps := []map[string]int{nil, {}, {"a": 1}, {"a": 1, "ab": 2, "": 3}}
	bss := [][]byte{nil, {}, []byte("a"), []byte("abcab")}
	errs := []error{nil, myErr{}}
	fls := []float64{0, 1, -1.5, 2, 1e200, 0.1, -3}
	anys := []any{5, "xy", nil, 3.5, []int{1}}
	v := vec{
		a: ints[i%len(ints)], b: ints[(i*3+1)%len(ints)],
		s: strs[(i*5)%len(strs)], t: strs[(i*3+2)%len(strs)],
		h:  (i/3)%2 == 0,
		e:  errs[(i/2)%2],
		fl: fls[(i*5)%len(fls)],
		v:  anys[i%len(anys)],
	}
	if x := slices[(i*3)%len(slices)]; x != nil {
		v.xs = append(make([]int, 0, len(x)), x...)
	}
	if x := maps[(i/2)%len(maps)]; x != nil {
		v.m = map[string]int{}
		for k, e := range x {
			v.m[k] = e
		}
	}
	if x := bss[i%len(bss)]; x != nil {
		v.bs = append(make([]byte, 0, len(x)), x...)
	}
	return v
}

func show(vals ...any) string {
	out := ""
	for _, v := range vals {
		switch x := v.(type) {
		case nil:
			out += "[nil]"
		case error:
			out += fmt.Sprintf("[%T %q]", x, x.Error())
		default:
			out += fmt.Sprintf("[%T %#v]", v, v)
		}
	}
	return out
}

func classify(r any) string {
	if _, ok := r.(runtime.Error); ok {
		return "runtime-error"
	}
	if e, ok := r.(error); ok {
		return "error:" + e.Error()
	}
	return fmt.Sprintf("value:%v", r)
}

func outcome(reset func(), state func() string, call func(v *vec) string, i int) string {
	v := mk(i)
	reset()
	res, pan := "?", "none"
	func() {
		defer func() {
			if r := recover(); r != nil {
				pan = classify(r)
			}
		}()
		res = call(&v)
	}()
	return fmt.Sprintf("res=%s panic=%s %s args=%v|%v|%q", res, pan, state(), v.xs, v.m, v.bs)
}

const nvec = 60

func compare(name string, o, f func(v *vec) string) {
	diffs := 0
	for i := 0; i < nvec; i++ {
		a := outcome(orig.Reset, orig.State, o, i)
		b := outcome(fixed.Reset, fixed.State, f, i)
		if a != b {
			diffs++
			if diffs <= 3 {
				v := mk(i)
				fmt.Printf("DIFF %s input %d %+v\n  original: %s\n  fixed:    %s\n", name, i, v, a, b)
			}
		}
	}
	fmt.Printf("DONE %s %d\n", name, diffs)
}

func main() {
//BODY
}
`

const callArgs = "v.a, v.b, v.s, v.t, v.h, v.xs, v.m, v.bs, v.e, v.fl, v.v"

func callClosure(pkg, fn string, results int) string {
	if results == 0 {
		return fmt.Sprintf("func(v *vec) string { %s.%s(%s); return show() }", pkg, fn, callArgs)
	}
	return fmt.Sprintf("func(v *vec) string { return show(%s.%s(%s)) }", pkg, fn, callArgs)
}

// evalBehaviour analyses the package given by files (base name -> content, must
// contain prelude.go), applies every fix of every S/QF diagnostic separately,
// and compares original and fixed functions by execution.
func evalBehaviour(files map[string]string, meta map[string]*instMeta) ([]finding, string) {
	dir, err := os.MkdirTemp("", "c16b-")
	if err != nil {
		return nil, err.Error()
	}
	defer os.RemoveAll(dir)
	odir := filepath.Join(dir, "orig")
	fdir := filepath.Join(dir, "fixed")
	os.MkdirAll(odir, 0o755)
	os.MkdirAll(fdir, 0o755)
	os.WriteFile(filepath.Join(dir, "go.mod"), []byte("module t\n\ngo 1.26.0\n"), 0o644)

	// 1. the original package must type-check; files that do not are generator errors
	ps := newPkgSrc()
	for n, s := range files {
		ps.add(filepath.Join(odir, n), []byte(s))
	}
	for round := 0; round < 4; round++ {
		errs := typeErrors(ps)
		if len(errs) == 0 {
			break
		}
		bad := map[string]bool{}
		for _, e := range errs {
			if e.Fset != nil && e.Pos.IsValid() {
				bad[e.Fset.Position(e.Pos).Filename] = true
			}
		}
		if len(bad) == 0 || bad[filepath.Join(odir, "prelude.go")] {
			return nil, "generated package does not type-check:\n" + errText(errs)
		}
		q := newPkgSrc()
		for _, n := range ps.order {
			if bad[n] {
				ev.Count("gen_invalid", 1)
				if m := meta[filepath.Base(n)]; m != nil {
					stat("shapes_invalid_by_check", m.check+"/"+m.shape, 1)
				}
				ev.Extra("last_gen_invalid", errText(errs)+string(ps.files[n]))
				continue
			}
			q.add(n, ps.files[n])
		}
		ps = q
	}
	for _, n := range ps.order {
		os.WriteFile(n, ps.files[n], 0o644)
	}

	// 2. analyse
	var diags []runner.Diagnostic
	err = rn.Run(rn.Options{Dir: dir, CacheDir: cacheDir()}, simpleAndQuickfix(), []string{"./orig"}, func(res []runner.Result) error {
		for _, r := range res {
			if !r.Initial {
				continue
			}
			if r.Failed {
				return fmt.Errorf("generated package failed to load: %v", r.Errors)
			}
			data, err := r.Load()
			if err != nil {
				return err
			}
			diags = append(diags, data.Diagnostics...)
		}
		return nil
	})
	if err != nil {
		return nil, err.Error()
	}

	var out []finding
	addFinding := func(check, kind, file, msg string) {
		fs := map[string]string{"prelude.go": files["prelude.go"], file: string(ps.files[filepath.Join(odir, file)])}
		out = append(out, finding{check: check, kind: kind, sig: knownSig(check, kind, msg), msg: msg, files: fs})
	}

	// 3. apply every fix separately
	var variants []variant
	perFile := map[string]int{}
	hit := map[string]map[string]bool{} // file -> checks that reported with a fix
	for _, d := range diags {
		base := filepath.Base(d.Position.Filename)
		if base == "prelude.go" {
			continue
		}
		stat("diagnostics_by_check", d.Category, 1)
		for _, v := range checkPositions(ps, d) {
			addFinding(d.Category, v.kind, base, fmt.Sprintf("generated function: %s %q: %s\n%s", d.Category, d.Message, v.msg, ps.files[d.Position.Filename]))
		}
		for fi, fix := range d.SuggestedFixes {
			stat("fixes_by_check", d.Category, 1)
			desc := fmt.Sprintf("%s at %s:%d:%d %q, fix %d %q", d.Category, base, d.Position.Line, d.Position.Column, d.Message, fi, fix.Message)
			ap, vs := applyFix(ps, fix)
			for _, v := range vs {
				addFinding(d.Category, v.kind, base, fmt.Sprintf("generated function: %s: %s\n%s", desc, v.msg, ps.files[d.Position.Filename]))
			}
			if ap == nil || ap.file == "" {
				continue
			}
			stat("fixes_applied_by_check", d.Category, 1)
			if hit[base] == nil {
				hit[base] = map[string]bool{}
			}
			hit[base][d.Category] = true
			orig := ps.files[ap.file]
			if err := parses(ap.file, ap.src); err != nil {
				addFinding(d.Category, "parse", base, fmt.Sprintf("%s: the patched file does not parse: %v\noriginal:\n%s\npatched:\n%s", desc, err, orig, ap.src))
				continue
			}
			var texts [][]byte
			for _, e := range fix.TextEdits {
				texts = append(texts, e.NewText)
			}
			adj, errs, log := adjustImports(ps.with(ap.file, ap.src), ap.file, texts)
			if len(log) > 0 {
				ev.Count("fixes_needing_import_adjustment", 1)
			}
			if len(errs) > 0 {
				addFinding(d.Category, "typecheck", base, fmt.Sprintf("%s: the patched package does not type-check (import adjustment: %v):\n%soriginal:\n%s\npatched:\n%s", desc, log, errText(errs), orig, ap.src))
				continue
			}
			stat("fixes_typechecked_by_check", d.Category, 1)
			m := funcNameRe.FindSubmatch(orig)
			if m == nil {
				continue
			}
			fn := string(m[1])
			nres, ok := resultCount(orig, fn)
			if !ok {
				continue
			}
			if perFile[base] >= 8 {
				ev.Count("variants_over_cap", 1)
				continue
			}
			vn := fmt.Sprintf("%s_v%d", fn, perFile[base])
			perFile[base]++
			src := adj.files[ap.file]
			src = bytes.Replace(src, []byte("func "+fn+"("), []byte("func "+vn+"("), 1)
			os.WriteFile(filepath.Join(fdir, strings.TrimSuffix(base, ".go")+fmt.Sprintf("_v%d.go", perFile[base]-1)), src, 0o644)
			variants = append(variants, variant{fn: fn, name: vn, check: d.Category, fixMsg: fix.Message, diagMsg: d.Message, file: base, patched: string(ap.src), results: nres})
		}
	}

	// bookkeeping per instance
	for _, n := range ps.order {
		base := filepath.Base(n)
		m := meta[base]
		if m == nil {
			continue
		}
		stat("shapes_instantiated_by_check", m.check, 1)
		fired := hit[base][m.check]
		if fired {
			stat("shapes_fired_by_check", m.check, 1)
		} else {
			stat("shapes_without_fix_by_check", m.check+"/"+m.shape, 1)
		}
		classes := []string{"instance"}
		if fired {
			classes = append(classes, "instance_with_fix")
		}
		if m.holes {
			classes = append(classes, "instance_with_tracing_multiline_or_lowprec_hole")
		}
		if m.alias > 0 {
			classes = append(classes, "instance_with_aliased_import")
		}
		ev.Case(ev.Hash(m.check, string(ps.files[n])), fired && m.holes, classes...)
	}
	if len(variants) == 0 {
		return out, ""
	}

	// 4. build and run
	os.WriteFile(filepath.Join(fdir, "prelude.go"), []byte(files["prelude.go"]), 0o644)
	var body strings.Builder
	for _, v := range variants {
		fmt.Fprintf(&body, "\tcompare(%q, %s, %s)\n", v.name, callClosure("orig", v.fn, v.results), callClosure("fixed", v.name, v.results))
	}
	os.WriteFile(filepath.Join(dir, "main.go"), []byte(strings.Replace(mainTemplate, "//BODY\n", body.String(), 1)), 0o644)
	build := exec.Command("go", "build", "-o", "prog", ".")
	build.Dir = dir
	if o, err := build.CombinedOutput(); err != nil {
		var all strings.Builder
		for _, v := range variants {
			fmt.Fprintf(&all, "== %s (%s)\n%s\n", v.name, v.check, v.patched)
		}
		return out, fmt.Sprintf("go build of the comparison program failed (the packages type-checked in-process): %v\n%s\n%s", err, o, all.String())
	}
	ctx, cancel := context.WithTimeout(context.Background(), 60*time.Second)
	defer cancel()
	run := exec.CommandContext(ctx, filepath.Join(dir, "prog"))
	run.Dir = dir
	var stdout, stderr bytes.Buffer
	run.Stdout, run.Stderr = &stdout, &stderr
	runErr := run.Run()
	done := map[string]bool{}
	diffText := map[string]string{}
	lines := strings.Split(stdout.String(), "\n")
	for i := 0; i < len(lines); i++ {
		l := lines[i]
		switch {
		case strings.HasPrefix(l, "DIFF "):
			name := strings.Fields(l)[1]
			txt := l
			for i+1 < len(lines) && strings.HasPrefix(lines[i+1], "  ") {
				i++
				txt += "\n" + lines[i]
			}
			if diffText[name] == "" {
				diffText[name] = txt
			}
		case strings.HasPrefix(l, "DONE "):
			done[strings.Fields(l)[1]] = true
		}
	}
	for _, v := range variants {
		stat("fixes_executed_by_check", v.check, 1)
		origSrc := string(ps.files[filepath.Join(odir, v.file)])
		switch {
		case diffText[v.name] != "":
			if why, ok := exemptChecks[v.check]; ok {
				ev.Count("behaviour_differs_exempt_"+v.check, 1)
				_ = why
				continue
			}
			addFinding(v.check, "behaviour", v.file, fmt.Sprintf("%s %q, fix %q changes the behaviour of the function:\n%s\noriginal:\n%s\npatched:\n%s", v.check, v.diagMsg, v.fixMsg, diffText[v.name], origSrc, v.patched))
		case !done[v.name]:
			if runErr != nil && ctx.Err() != nil {
				// a time limit is never a verdict: the original function may be the one that does not
				// return (a generator slip), and a loaded machine can be slow; counted, case skipped
				ev.Count("comparison_program_over_time_limit_inconclusive", 1)
				return out, fmt.Sprintf("%s fix %q: the comparison program did not finish within 60s while running (or before reaching) %s (inconclusive)", v.check, v.fixMsg, v.name)
			} else {
				return out, fmt.Sprintf("comparison program ended early: %v\n%s", runErr, stderr.String())
			}
		default:
			ev.Count("fix_behaviour_equal", 1)
		}
	}
	return out, ""
}
