package c16

func evalBehaviour(files map[string]string, meta map[string]*instMeta) ([]finding, string) {
	return nil, "not implemented"
}

type instMeta struct{}
