package c16

import (
	"bytes"
	"fmt"
	"go/ast"
	"go/format"
	"go/importer"
	"go/parser"
	"go/token"
	"go/types"
	"path/filepath"
	"regexp"
	"sort"
	"strings"
	"sync"

	"golang.org/x/tools/go/ast/astutil"
	"honnef.co/go/tools/lintcmd/runner"
)

// pkgSrc is the source of one analysed package: absolute file name -> content.
type pkgSrc struct {
	files     map[string][]byte
	order     []string
	generated []string // cgo-generated files (not in GoFiles)
}

func (p *pkgSrc) anyLineDirective() bool {
	for _, src := range p.files {
		if hasLineDirectiveOrCgo(src) {
			return true
		}
	}
	return false
}

func (p *pkgSrc) isGenerated(name string) bool {
	for _, g := range p.generated {
		if g == name {
			return true
		}
	}
	return false
}

func newPkgSrc() *pkgSrc { return &pkgSrc{files: map[string][]byte{}} }

func (p *pkgSrc) add(name string, src []byte) {
	if _, ok := p.files[name]; !ok {
		p.order = append(p.order, name)
		sort.Strings(p.order)
	}
	p.files[name] = src
}

func (p *pkgSrc) with(name string, src []byte) *pkgSrc {
	q := newPkgSrc()
	for _, n := range p.order {
		q.add(n, p.files[n])
	}
	q.add(name, src)
	return q
}

func hasLineDirectiveOrCgo(src []byte) bool {
	return bytes.Contains(src, []byte("//line ")) || bytes.Contains(src, []byte("/*line ")) ||
		bytes.Contains(src, []byte("import \"C\"")) || bytes.Contains(src, []byte("\t\"C\"\n"))
}

func lineStarts(src []byte) []int {
	out := []int{0}
	for i, b := range src {
		if b == '\n' {
			out = append(out, i+1)
		}
	}
	return out
}

func isZeroPos(p token.Position) bool { return p.Filename == "" && p.Line == 0 }

// posOffset validates that p names an existing line and column of a file of the
// package and returns its byte offset.
func (p *pkgSrc) posOffset(pos token.Position) (int, string) {
	src, ok := p.files[pos.Filename]
	if !ok {
		if !filepath.IsAbs(pos.Filename) {
			return 0, fmt.Sprintf("file %q is not an absolute path of a file of the package", pos.Filename)
		}
		return 0, fmt.Sprintf("file %q is not one of the package's Go files", pos.Filename)
	}
	ls := lineStarts(src)
	// a file that ends in "\n" has an empty last line: lines(file) counts it, as editors do
	if pos.Line < 1 || pos.Line > len(ls) {
		return 0, fmt.Sprintf("line %d does not exist (file has %d lines)", pos.Line, len(ls))
	}
	start := ls[pos.Line-1]
	end := len(src)
	if pos.Line < len(ls) {
		end = ls[pos.Line] - 1 // without the "\n"
	}
	if pos.Column < 1 || pos.Column > end-start+1 {
		return 0, fmt.Sprintf("column %d does not exist on line %d (line has %d bytes)", pos.Column, pos.Line, end-start)
	}
	return start + pos.Column - 1, ""
}

type violation struct {
	kind string // position | end | edit-bounds | edit-overlap | parse | typecheck
	msg  string
}

// appliedFix is the result of applying one suggested fix.
type appliedFix struct {
	file string // the single file the fix edits ("" if none)
	src  []byte // its new content (imports not yet adjusted)
}

// checkPositions validates the position clause for one diagnostic.
func checkPositions(ps *pkgSrc, d runner.Diagnostic) []violation {
	var out []violation
	if src, ok := ps.files[d.Position.Filename]; ok && hasLineDirectiveOrCgo(src) {
		return nil
	}
	if ps.anyLineDirective() {
		return nil // positions may be remapped by a //line directive, also into another real file of the package
	}
	so, msg := ps.posOffset(d.Position)
	if msg != "" {
		return []violation{{"position", "position " + d.Position.String() + ": " + msg}}
	}
	if !isZeroPos(d.End) {
		eo, msg := ps.posOffset(d.End)
		switch {
		case msg != "":
			out = append(out, violation{"end", "end " + d.End.String() + ": " + msg})
		case d.End.Filename != d.Position.Filename:
			out = append(out, violation{"end", fmt.Sprintf("end %s is in another file than the position %s", d.End, d.Position)})
		case eo < so:
			out = append(out, violation{"end", fmt.Sprintf("end %s precedes the position %s", d.End, d.Position)})
		}
	}
	for _, rel := range d.Related {
		// related information may legitimately point into other packages
		// (SA4023 points at the function that returns the typed nil); only
		// positions inside this package can be validated
		src, ok := ps.files[rel.Position.Filename]
		if !ok || hasLineDirectiveOrCgo(src) {
			continue
		}
		if _, msg := ps.posOffset(rel.Position); msg != "" {
			out = append(out, violation{"position", "related position " + rel.Position.String() + ": " + msg})
		}
	}
	return out
}

type span struct {
	s, e int
	text []byte
}

// applyFix validates the edits of a fix and applies them.
func applyFix(ps *pkgSrc, fix runner.SuggestedFix) (*appliedFix, []violation) {
	byFile := map[string][]span{}
	var out []violation
	for i, e := range fix.TextEdits {
		s, msg := ps.posOffset(e.Position)
		if msg != "" {
			out = append(out, violation{"edit-bounds", fmt.Sprintf("edit %d start %s: %s", i, e.Position, msg)})
			continue
		}
		end := s
		if !isZeroPos(e.End) {
			var msg string
			end, msg = ps.posOffset(e.End)
			if msg != "" {
				out = append(out, violation{"edit-bounds", fmt.Sprintf("edit %d end %s: %s", i, e.End, msg)})
				continue
			}
			if e.End.Filename != e.Position.Filename {
				out = append(out, violation{"edit-bounds", fmt.Sprintf("edit %d spans two files: %s .. %s", i, e.Position, e.End)})
				continue
			}
		}
		if end < s {
			out = append(out, violation{"edit-bounds", fmt.Sprintf("edit %d ends (%s) before it starts (%s)", i, e.End, e.Position)})
			continue
		}
		byFile[e.Position.Filename] = append(byFile[e.Position.Filename], span{s, end, e.NewText})
	}
	if len(out) > 0 {
		return nil, out
	}
	if len(byFile) > 1 {
		var names []string
		for n := range byFile {
			names = append(names, n)
		}
		sort.Strings(names)
		return nil, []violation{{"edit-bounds", fmt.Sprintf("the edits of one fix touch %d files: %v", len(names), names)}}
	}
	res := &appliedFix{}
	for name, spans := range byFile {
		sort.SliceStable(spans, func(i, j int) bool {
			if spans[i].s != spans[j].s {
				return spans[i].s < spans[j].s
			}
			return spans[i].e < spans[j].e
		})
		for i := 1; i < len(spans); i++ {
			if spans[i].s < spans[i-1].e {
				return nil, []violation{{"edit-overlap", fmt.Sprintf("edits [%d,%d) and [%d,%d) of one fix overlap in %s", spans[i-1].s, spans[i-1].e, spans[i].s, spans[i].e, name)}}
			}
		}
		src := ps.files[name]
		var buf []byte
		last := 0
		for _, sp := range spans {
			buf = append(buf, src[last:sp.s]...)
			buf = append(buf, sp.text...)
			last = sp.e
		}
		buf = append(buf, src[last:]...)
		res.file, res.src = name, buf
	}
	return res, nil
}

func parses(name string, src []byte) error {
	_, err := parser.ParseFile(token.NewFileSet(), name, src, parser.AllErrors|parser.SkipObjectResolution)
	return err
}

// ---------------------------------------------------------------- type checking

var (
	impOnce sync.Once
	impMu   sync.Mutex
	srcImp  types.ImporterFrom
)

// lockedImporter serialises the source importer (it is not safe for concurrent use).
type lockedImporter struct{}

func (lockedImporter) Import(path string) (*types.Package, error) {
	return lockedImporter{}.ImportFrom(path, "", 0)
}

func (lockedImporter) ImportFrom(path, dir string, mode types.ImportMode) (*types.Package, error) {
	impOnce.Do(func() {
		srcImp = importer.ForCompiler(token.NewFileSet(), "source", nil).(types.ImporterFrom)
	})
	impMu.Lock()
	defer impMu.Unlock()
	return srcImp.ImportFrom(path, dir, mode)
}

// typeErrors type-checks the package and returns the errors (nil = none).
func typeErrors(ps *pkgSrc) []types.Error {
	fset := token.NewFileSet()
	var files []*ast.File
	var errs []types.Error
	for _, n := range ps.order {
		f, err := parser.ParseFile(fset, n, ps.files[n], parser.SkipObjectResolution)
		if err != nil {
			return []types.Error{{Fset: fset, Msg: "parse: " + err.Error()}}
		}
		files = append(files, f)
	}
	if len(files) == 0 {
		return nil
	}
	conf := types.Config{
		Importer: lockedImporter{},
		Error: func(err error) {
			if te, ok := err.(types.Error); ok {
				errs = append(errs, te)
			} else {
				errs = append(errs, types.Error{Fset: fset, Msg: err.Error()})
			}
		},
	}
	conf.Check(files[0].Name.Name, fset, files, nil)
	return errs
}

func errText(errs []types.Error) string {
	var sb strings.Builder
	for i, e := range errs {
		if i == 6 {
			fmt.Fprintf(&sb, "  ... and %d more\n", len(errs)-i)
			break
		}
		sb.WriteString("  " + e.Error() + "\n")
	}
	return sb.String()
}

// stdQualifiers maps the package qualifiers that replacement text of the checks can introduce to import paths.
var stdQualifiers = map[string]string{
	"strings": "strings", "bytes": "bytes", "fmt": "fmt", "time": "time", "sort": "sort", "slices": "slices",
	"maps": "maps", "errors": "errors", "strconv": "strconv", "math": "math", "regexp": "regexp", "os": "os",
	"io": "io", "http": "net/http", "context": "context", "sync": "sync", "unicode": "unicode", "utf8": "unicode/utf8",
	"atomic": "sync/atomic", "filepath": "path/filepath", "reflect": "reflect", "rand": "math/rand", "bits": "math/bits",
	"json": "encoding/json", "binary": "encoding/binary", "url": "net/url", "exec": "os/exec", "syscall": "syscall",
	"signal": "os/signal", "testing": "testing", "log": "log", "bufio": "bufio", "unsafe": "unsafe", "ioutil": "io/ioutil",
}

var (
	reUnusedImport = regexp.MustCompile(`^"([^"]+)" imported( as (\S+))? and not used$`)
	reUndefined    = regexp.MustCompile(`^undefined: (\w+)$`)
)

// adjustImports drops the imports of file that the fix made unused and adds
// imports for std package qualifiers that the replacement text newly refers
// to, then returns the remaining type errors. newTexts are the replacement
// texts of the fix.
func adjustImports(ps *pkgSrc, file string, newTexts [][]byte) (*pkgSrc, []types.Error, []string) {
	var log []string
	cur := ps
	for round := 0; round < 6; round++ {
		errs := typeErrors(cur)
		if len(errs) == 0 {
			return cur, nil, log
		}
		fset := token.NewFileSet()
		// comments are dropped: the adjusted file only has to type-check (and
		// compile), and astutil's import editing is fragile around comments
		// that sit on import lines
		f, err := parser.ParseFile(fset, file, cur.files[file], 0)
		if err != nil {
			return cur, errs, log
		}
		changed := false
		var rest []types.Error
		for _, e := range errs {
			inFile := e.Fset != nil && e.Pos.IsValid() && e.Fset.Position(e.Pos).Filename == file
			if m := reUnusedImport.FindStringSubmatch(e.Msg); m != nil && inFile {
				name := m[3]
				ok := false
				if name != "" {
					ok = astutil.DeleteNamedImport(fset, f, name, m[1])
				} else {
					ok = astutil.DeleteImport(fset, f, m[1])
				}
				if ok {
					changed = true
					log = append(log, "dropped import "+m[1])
					continue
				}
			}
			if m := reUndefined.FindStringSubmatch(e.Msg); m != nil && inFile {
				if path, ok := stdQualifiers[m[1]]; ok && introduces(newTexts, m[1]) {
					if astutil.AddImport(fset, f, path) {
						changed = true
						log = append(log, "added import "+path)
					}
					continue
				}
			}
			rest = append(rest, e)
		}
		if !changed {
			return cur, rest, log
		}
		var buf bytes.Buffer
		if err := format.Node(&buf, fset, f); err != nil {
			return cur, errs, log
		}
		cur = cur.with(file, buf.Bytes())
	}
	return cur, typeErrors(cur), log
}

func introduces(newTexts [][]byte, qual string) bool {
	re := regexp.MustCompile(`\b` + regexp.QuoteMeta(qual) + `\s*\.`)
	for _, t := range newTexts {
		if re.Match(t) {
			return true
		}
	}
	return false
}
