package c16

import (
	"fmt"
	"sort"
	"strings"
	"testing"

	"pgregory.net/rapid"
	"verif/harness/internal/ev"
)

// TestShapes is the behavioural clause.
func TestShapes(t *testing.T) {
	ev.Rule(rule)
	defer flushStats()
	emitters := fixEmitters("simple", "quickfix")
	have := map[string]bool{}
	for _, s := range shapes {
		have[s.check] = true
	}
	var noShape []string
	for _, c := range emitters {
		if !have[c] {
			noShape = append(noShape, c)
		}
	}
	ev.Extra("fix_emitting_simple_quickfix_checks", strings.Join(emitters, " "))
	ev.Extra("checks_without_shape_position_apply_clause_only", strings.Join(noShape, " "))
	ev.Extra("checks_with_shape", len(have))
	var exempt []string
	for c, why := range exemptChecks {
		exempt = append(exempt, c+": "+why)
	}
	sort.Strings(exempt)
	ev.Assume("behavioural equality is not asserted (only counted) for checks whose fix deliberately changes behaviour: " + strings.Join(exempt, "; "))
	ev.Assume("time-dependent rewrites (S1012, S1024, S1037) are compared through time-independent observations (sign of a duration far from zero, trace, completion)")
	perCase := ev.EnvInt("C16_INSTANCES", 16, 24)
	ev.Check(t, "TestShapes", func(rt *rapid.T) {
		if pastShare(0.85, &shapeCases) {
			return
		}
		files := map[string]string{"prelude.go": prelude}
		meta := map[string]*instMeta{}
		for i := 0; i < perCase; i++ {
			tab := shapeTable()
			sh := tab[uniform(rt, len(tab), "shape")]
			in := buildInstance(rt, i, sh)
			name := fmt.Sprintf("f%d.go", i)
			files[name] = in.Src
			meta[name] = &instMeta{check: in.Check, shape: in.Shape, holes: in.nontrivialHoles(), alias: in.Alias}
		}
		rp := &Replay{Kind: "behaviour", Files: files}
		ev.Begin("TestShapes", "json", rp.bytes())
		fs, infra := evalBehaviour(files, meta)
		if infra != "" {
			ev.Count("infra_skipped", 1)
			ev.Extra("last_infra", infra)
			rt.Skip(infra)
		}
		msgs, first := reportFindings(fs)
		if first != nil {
			one := &Replay{Kind: "behaviour", Check: first.check, Files: first.files, Note: first.sig}
			ev.Begin("TestShapes", "json", one.bytes())
			ev.Failf(rt, "TestShapes", "%s", strings.Join(msgs, "\n\n"))
		}
		if ev.WantSample() {
			for n, m := range meta {
				if m.holes {
					ev.Sample(map[string]any{"kind": "shape instance", "check": m.check, "shape": m.shape, "source": files[n]})
					break
				}
			}
		}
	})
}
