package c16

import (
	"encoding/json"
	"fmt"
	"go/ast"
	"go/parser"
	"go/token"
	"os"
	"path/filepath"
	"regexp"
	"runtime"
	"sort"
	"strconv"
	"strings"
	"sync"
	"testing"
	"time"

	"golang.org/x/tools/go/analysis"
	"honnef.co/go/tools/lintcmd/runner"
	"pgregory.net/rapid"
	"verif/harness/internal/ev"
	"verif/harness/internal/rn"
	"verif/harness/internal/srcmut"
)

func TestMain(m *testing.M) {
	// 16 shards run side by side; the runner, the type checker and the child go
	// commands are all parallel on their own. Without a cap the shards fight
	// for the cores (measured: 5x wall time, mostly system time).
	if n := ev.NShards(); n > 1 {
		p := max(2, 2*runtime.NumCPU()/n)
		runtime.GOMAXPROCS(p)
		os.Setenv("GOMAXPROCS", fmt.Sprint(p))
	}
	ev.Main(m)
}

var procStart = time.Now()

// pastShare reports whether this process has used more than the given share of
// the soft time budget (VERIF_DEADLINE). The rapid properties of this package
// run one after the other; each stops drawing new cases at its share so that
// the later ones are not starved (TestMutated: 40%, TestShapes: up to 85%; the rest is left for the case in flight and the corpus).
func pastShare(frac float64, done *int) bool {
	// every property evaluates at least one case, however loaded the machine is
	if *done == 0 {
		*done++
		return false
	}
	*done++
	d := os.Getenv("VERIF_DEADLINE")
	if d == "" {
		return false
	}
	n, err := strconv.ParseInt(d, 10, 64)
	if err != nil {
		return false
	}
	budget := time.Unix(n, 0).Sub(procStart)
	if budget <= 0 {
		return true
	}
	if time.Since(procStart) > time.Duration(frac*float64(budget)) {
		ev.Count("cases_skipped_time_share", 1)
		return true
	}
	return false
}

// cacheDir is the staticcheck cache shared by the shards of one run (the driver removes VERIF_OUT afterwards).
func cacheDir() string {
	d := filepath.Join(ev.OutDir(), "c16-rncache")
	os.MkdirAll(d, 0o755)
	return d
}

const rule = "two kinds of cases. (a) position/apply clause: a package = a check testdata package of the repository (thorough: also the repository's own packages), analysed unchanged and as srcmut variants (comments, line breaks, redundant parentheses, renamed imports, CRLF, leading lines; 1 mutation quick, up to 20 thorough) with all analyzers incl. quickfix through the real runner; every diagnostic and every suggested fix is validated (position/end exist, edits in bounds and disjoint, patched file parses, patched package type-checks after import adjustment); non-trivial = diagnostic carrying >=1 fix on a MUTATED variant, distinct by (check, hash of the mutated source). (b) behavioural clause: an instance = an executable function instantiating the trigger shape of one fix-emitting S/QF check, holes filled with drawn typed operands (variables, literals, arithmetic, tracing calls tr/trs/trb, multi-line operands, operands of lower precedence, aliased imports, shadowed package names); every fix of every diagnostic in it is applied separately, original and fixed functions are compiled into one binary and run on an input grid; results, panic outcome, trace, pointees and globals must be equal; non-trivial = instance with a fix applied whose holes contain a tracing call or a multi-line or lower-precedence operand, distinct by (check, source hash)"

// ---------------------------------------------------------------- bookkeeping

var (
	statMu   sync.Mutex
	perCheck = map[string]map[string]int{}
)

func stat(kind, check string, n int) {
	statMu.Lock()
	defer statMu.Unlock()
	if perCheck[kind] == nil {
		perCheck[kind] = map[string]int{}
	}
	perCheck[kind][check] += n
}

func flushStats() {
	statMu.Lock()
	defer statMu.Unlock()
	for k, m := range perCheck {
		c := map[string]int{}
		for a, b := range m {
			c[a] = b
		}
		ev.Extra(k, c)
	}
}

// includeKnown switches the generator classes that are excluded because of recorded findings back on.
func includeKnown() bool { return os.Getenv("C16_INCLUDE_KNOWN") != "" }

// include reports whether the generator produces the input class of the
// recorded finding sig: always unless the finding is listed as known (a fixed
// finding excludes nothing), or when C16_INCLUDE_KNOWN is set.
func include(sig string) bool { return includeKnown() || !ev.IsKnown(sig) }

// ---------------------------------------------------------------- fix-emitting checks

var reportFixesRe = regexp.MustCompile(`report\.Fixes\(`)

// fixEmitters scans the check sources for report.Fixes( and returns the check names per category directory.
func fixEmitters(dirs ...string) []string {
	var out []string
	for _, d := range dirs {
		ms, _ := filepath.Glob(filepath.Join("/repo", d, "*", "*.go"))
		seen := map[string]bool{}
		for _, f := range ms {
			if strings.HasSuffix(f, "_test.go") {
				continue
			}
			b, err := os.ReadFile(f)
			if err != nil || !reportFixesRe.Match(b) {
				continue
			}
			name := strings.ToUpper(filepath.Base(filepath.Dir(f)))
			if !seen[name] {
				seen[name] = true
				out = append(out, name)
			}
		}
	}
	sort.Strings(out)
	return out
}

// ---------------------------------------------------------------- replay format

type Replay struct {
	Kind  string            `json:"kind"`  // "apply" (clause a) or "behaviour" (clause b)
	Check string            `json:"check"` // check the case is about ("" = all)
	Note  string            `json:"note,omitempty"`
	Files map[string]string `json:"files"` // package files, names relative to the package directory
}

func (r *Replay) bytes() []byte {
	b, _ := json.MarshalIndent(r, "", " ")
	return b
}

// ---------------------------------------------------------------- clause (a)

func testdataDirs() []string {
	var out []string
	for _, g := range []string{"simple", "staticcheck", "stylecheck", "quickfix"} {
		m, _ := filepath.Glob(filepath.Join("/repo", g, "*", "testdata", "go1.*", "*"))
		for _, d := range m {
			if st, err := os.Stat(d); err == nil && st.IsDir() && filepath.Base(d) != "vendor" {
				out = append(out, "./"+strings.TrimPrefix(d, "/repo/"))
			}
		}
	}
	sort.Strings(out)
	return out
}

var (
	allOnce      sync.Once
	allAnalyzers []*analysis.Analyzer
)

func analyzers() []*analysis.Analyzer {
	allOnce.Do(func() { allAnalyzers = rn.Analyzers(true) })
	return allAnalyzers
}

// finding describes one violation found while validating a package.
type finding struct {
	check string
	kind  string
	sig   string
	msg   string
	files map[string]string // package files (base names)
}

type evalOpts struct {
	mutated  bool
	maxTypes int // cap on type-checked fixes per package (0 = no cap)
	label    string
}

func readPkg(files []string) (*pkgSrc, error) {
	ps := newPkgSrc()
	for _, f := range files {
		if !strings.HasSuffix(f, ".go") {
			continue
		}
		b, err := os.ReadFile(f)
		if err != nil {
			return nil, err
		}
		ps.add(f, b)
	}
	return ps, nil
}

func baseFiles(ps *pkgSrc) map[string]string {
	out := map[string]string{}
	for _, n := range ps.order {
		out[filepath.Base(n)] = string(ps.files[n])
	}
	return out
}

var reDoubleNot = regexp.MustCompile(`!\s*!\s*\(`)

var reShadowed = regexp.MustCompile(`(\w+)\.\w+ undefined \(type `)

// knownSig classifies a violation for the known-findings mechanism: one
// signature per root cause where the message identifies it, else one per
// (check, violated clause).
func knownSig(check, kind, msg string) string {
	switch {
	case kind == "typecheck" && reShadowed.MatchString(msg) && stdQualifiers[reShadowed.FindStringSubmatch(msg)[1]] != "":
		return "fix-names-shadowed-package"
	case check == "QF1012" && kind == "typecheck" && strings.Contains(msg, "cannot take address of"):
		return "qf1012-address-of-unaddressable-receiver"
	case check == "S1002" && (kind == "typecheck" || kind == "behaviour"):
		return "s1002-unparenthesised-operand"
	case check == "QF1001" && (kind == "typecheck" || kind == "behaviour") && strings.Contains(msg, "& simplify\""):
		return "simplify-parentheses-changes-structure"
	case check == "QF1005" && kind == "behaviour":
		if onlyRounding(msg) {
			return "qf1005-regrouped-multiplication"
		}
		if powIsOperand(msg) {
			return "replacement-not-parenthesised-for-context"
		}
		return "simplify-parentheses-changes-structure"
	case check == "S1025" && kind == "behaviour" && strings.Contains(msg, "Replace with call to String method"):
		return "s1025-stringer-that-is-also-error"
	case check == "S1025" && (kind == "behaviour" || kind == "typecheck"):
		return "replacement-not-parenthesised-for-context"
	case check == "QF1001" && kind == "behaviour" && reDoubleNot.MatchString(msg):
		return "qf1001-negation-under-unary-operator"
	case (check == "QF1003" || check == "QF1002") && kind == "typecheck" && strings.Contains(msg, "duplicate case"):
		return "tagged-switch-duplicate-case"
	case check == "SA1006" && kind == "parse":
		return "sa1006-parenthesised-callee"
	case check == "S1034" && kind == "typecheck":
		return "s1034-assignment-to-switched-variable"
	case check == "S1018" && kind == "behaviour" && panicInvolved(msg):
		return "s1018-count-or-offset-out-of-range"
	case check == "S1001" && kind == "behaviour" && panicInvolved(msg):
		return "s1001-destination-shorter-than-source"
	case check == "S1033" && kind == "behaviour":
		return "s1033-key-evaluated-once"
	case check == "S1030" && kind == "behaviour":
		return "s1030-bytes-differs-from-copy"
	}
	return strings.ToLower(check) + "-fix-" + kind
}

var reDiffRes = regexp.MustCompile(`(?m)^  (original|fixed):\s+res=\[float64 ([^\]]+)\] (.*)$`)

// onlyRounding reports whether every difference quoted in a behaviour message
// is a float64 result that differs by rounding only (relative error below
// 1e-9), with identical panics, traces and effects.
func onlyRounding(msg string) bool {
	ms := reDiffRes.FindAllStringSubmatch(msg, -1)
	if len(ms) == 0 || len(ms)%2 != 0 || strings.Count(msg, "\n  original:") != len(ms)/2 {
		return false
	}
	for i := 0; i < len(ms); i += 2 {
		o, f := ms[i], ms[i+1]
		if o[1] != "original" || f[1] != "fixed" || o[3] != f[3] {
			return false
		}
		x, err1 := strconv.ParseFloat(o[2], 64)
		y, err2 := strconv.ParseFloat(f[2], 64)
		if err1 != nil || err2 != nil {
			return false
		}
		d, m := x-y, max(x, -x, y, -y)
		if d < 0 {
			d = -d
		}
		if !(d <= 1e-9*m) {
			return false
		}
	}
	return true
}

var reDiffPanic = regexp.MustCompile(`(?m)^  (original|fixed):\s+res=.*? panic=(\S+) trace=`)

// panicInvolved reports whether in every difference quoted in a behaviour
// message the original or the fixed function panics (the recorded S1018 and
// S1001 findings are about out-of-range panics that copy does not reproduce;
// a difference between two runs that both return normally is something else).
func panicInvolved(msg string) bool {
	ms := reDiffPanic.FindAllStringSubmatch(msg, -1)
	if len(ms) == 0 || len(ms)%2 != 0 {
		return false
	}
	for i := 0; i < len(ms); i += 2 {
		if ms[i][2] == "none" && ms[i+1][2] == "none" {
			return false
		}
	}
	return true
}

// powIsOperand reports whether the original source quoted in a QF1005 message
// uses a math.Pow call as an operand of a binary expression (as opposed to a
// whole statement operand).
func powIsOperand(msg string) bool {
	i := strings.Index(msg, "original:\n")
	j := strings.Index(msg, "patched:\n")
	if i < 0 || j < i {
		return false
	}
	f, err := parser.ParseFile(token.NewFileSet(), "x.go", msg[i+len("original:\n"):j], parser.SkipObjectResolution)
	if err != nil {
		return false
	}
	found := false
	ast.Inspect(f, func(n ast.Node) bool {
		be, ok := n.(*ast.BinaryExpr)
		if !ok {
			return true
		}
		for _, op := range []ast.Expr{be.X, be.Y} {
			if call, ok := op.(*ast.CallExpr); ok {
				if sel, ok := call.Fun.(*ast.SelectorExpr); ok && sel.Sel.Name == "Pow" {
					found = true
				}
			}
		}
		return true
	})
	return found
}

// validateResult checks every diagnostic and fix of one analysed package.
func validateResult(r runner.Result, o evalOpts) ([]finding, error) {
	data, err := r.Load()
	if err != nil {
		return nil, err
	}
	ps, err := readPkg(r.Package.GoFiles)
	if err != nil {
		return nil, err
	}
	// cgo packages: the compiled files include generated ones (in the build cache);
	// they count as files of the package for the existence of positions
	if gen, err := readPkg(r.Package.CompiledGoFiles); err == nil {
		for _, n := range gen.order {
			if _, ok := ps.files[n]; !ok {
				ps.add(n, gen.files[n])
				ps.generated = append(ps.generated, n)
			}
		}
	}
	var out []finding
	add := func(check, kind, msg string) {
		out = append(out, finding{check: check, kind: kind, sig: knownSig(check, kind, msg), msg: fmt.Sprintf("%s %s: %s", o.label, r.Package.PkgPath, msg), files: baseFiles(ps)})
	}
	cgo := false
	for _, n := range ps.order {
		if hasLineDirectiveOrCgo(ps.files[n]) {
			cgo = true
		}
	}
	var origErrs []error
	origChecked := false
	origOK := func() bool {
		if !origChecked {
			origChecked = true
			for _, e := range typeErrors(ps) {
				origErrs = append(origErrs, e)
			}
		}
		return len(origErrs) == 0
	}
	nTypes := 0
	srcHash := ""
	for _, d := range data.Diagnostics {
		if d.Category == "compile" || d.Category == "config" {
			continue
		}
		stat("diagnostics_by_check", d.Category, 1)
		if ps.isGenerated(d.Position.Filename) {
			ev.Count("position_in_cgo_generated_file", 1)
		}
		for _, v := range checkPositions(ps, d) {
			add(d.Category, v.kind, fmt.Sprintf("%s %q: %s", d.Category, d.Message, v.msg))
		}
		if len(d.SuggestedFixes) == 0 {
			ev.Case("", false, "diagnostic_without_fix")
			continue
		}
		if src, ok := ps.files[d.Position.Filename]; ok && hasLineDirectiveOrCgo(src) {
			ev.Count("fix_in_file_with_line_directive_or_cgo_skipped", 1)
			continue
		}
		if srcHash == "" {
			var parts []string
			for _, n := range ps.order {
				parts = append(parts, string(ps.files[n]))
			}
			srcHash = ev.Hash(parts...)
		}
		cls := "diagnostic_with_fix_unmutated"
		if o.mutated {
			cls = "diagnostic_with_fix_mutated"
		}
		ev.Case(ev.Hash(d.Category, srcHash), o.mutated, cls)
		for fi, fix := range d.SuggestedFixes {
			stat("fixes_by_check", d.Category, 1)
			desc := fmt.Sprintf("%s at %s %q, fix %d %q", d.Category, d.Position, d.Message, fi, fix.Message)
			ap, vs := applyFix(ps, fix)
			for _, v := range vs {
				add(d.Category, v.kind, desc+": "+v.msg)
			}
			if ap == nil || ap.file == "" {
				if ap != nil {
					ev.Count("fix_without_edits", 1)
				}
				continue
			}
			stat("fixes_applied_by_check", d.Category, 1)
			if err := parses(ap.file, ap.src); err != nil {
				add(d.Category, "parse", fmt.Sprintf("%s: the patched file does not parse: %v\npatched %s:\n%s", desc, err, filepath.Base(ap.file), excerpt(ps.files[ap.file], ap.src)))
				continue
			}
			if cgo {
				ev.Count("typecheck_inconclusive_cgo_or_line_directive", 1)
				continue
			}
			if o.maxTypes > 0 && nTypes >= o.maxTypes {
				ev.Count("typecheck_skipped_by_cap", 1)
				continue
			}
			nTypes++
			if !origOK() {
				ev.Count("typecheck_inconclusive_original_does_not_typecheck", 1)
				continue
			}
			var texts [][]byte
			for _, e := range fix.TextEdits {
				texts = append(texts, e.NewText)
			}
			_, errs, log := adjustImports(ps.with(ap.file, ap.src), ap.file, texts)
			if len(log) > 0 {
				ev.Count("fixes_needing_import_adjustment", 1)
			}
			if len(errs) > 0 {
				add(d.Category, "typecheck", fmt.Sprintf("%s: the patched package does not type-check (the original does; import adjustment: %v):\n%spatched %s:\n%s", desc, log, errText(errs), filepath.Base(ap.file), excerpt(ps.files[ap.file], ap.src)))
				continue
			}
			stat("fixes_typechecked_by_check", d.Category, 1)
		}
	}
	return out, nil
}

// excerpt shows the lines of the patched file that differ from the original, with some context.
func excerpt(orig, patched []byte) string {
	ol := strings.Split(string(orig), "\n")
	pl := strings.Split(string(patched), "\n")
	i := 0
	for i < len(ol) && i < len(pl) && ol[i] == pl[i] {
		i++
	}
	j := 0
	for j < len(ol)-i && j < len(pl)-i && ol[len(ol)-1-j] == pl[len(pl)-1-j] {
		j++
	}
	lo := max(0, i-2)
	hi := min(len(pl), len(pl)-j+2)
	var sb strings.Builder
	for k := lo; k < hi && k < lo+40; k++ {
		fmt.Fprintf(&sb, "  %4d| %s\n", k+1, pl[k])
	}
	return sb.String()
}

// report turns findings into violations unless they are recorded as known.
func reportFindings(fs []finding) (msgs []string, first *finding) {
	for i := range fs {
		f := &fs[i]
		if ev.IsKnown(f.sig) {
			ev.KnownFinding(f.sig, f.msg)
			continue
		}
		if p := os.Getenv("C16_SURVEY"); p != "" {
			// exploration aid: collect instead of failing
			if fh, err := os.OpenFile(p, os.O_APPEND|os.O_CREATE|os.O_WRONLY, 0o644); err == nil {
				fmt.Fprintf(fh, "=====[%s]\n%s\n", f.sig, f.msg)
				fh.Close()
			}
			continue
		}
		msgs = append(msgs, "["+f.sig+"] "+f.msg)
		if first == nil {
			first = f
		}
	}
	return
}

// runRepoDirs analyses unchanged packages of the repository.
func runRepoDirs(patterns []string, o evalOpts) ([]finding, error) {
	var out []finding
	err := rn.Run(rn.Options{Dir: "/repo", CacheDir: cacheDir()}, analyzers(), patterns, func(res []runner.Result) error {
		for _, r := range res {
			if !r.Initial {
				continue
			}
			if r.Failed {
				ev.Count("packages_failed_to_load", 1)
				continue
			}
			ev.Count("packages_analysed_unmutated", 1)
			fs, err := validateResult(r, o)
			if err != nil {
				return err
			}
			out = append(out, fs...)
		}
		return nil
	})
	return out, err
}

// TestTestdata validates the unchanged testdata packages (sharded) and, in the
// thorough tier, the repository's own packages.
func TestTestdata(t *testing.T) {
	ev.Rule(rule)
	defer flushStats()
	dirs := testdataDirs()
	if len(dirs) < 200 {
		ev.Infra("only %d testdata packages found", len(dirs))
		return
	}
	// quick: a slice of the testdata packages that rotates with the seed; thorough: all of them
	limit := ev.EnvInt("C16_DIRS", 128, 100000)
	rot := 0
	if !ev.Thorough() {
		if base, err := strconv.ParseInt(os.Getenv("VERIF_BASE_SEED"), 10, 64); err == nil {
			rot = int(base%1000) * 53
		} else {
			rot = int(ev.Seed()%1000) * 53
		}
	}
	var mine []string
	for k := range dirs {
		i := (k + rot) % len(dirs)
		if k%ev.NShards() == ev.Shard() && len(mine)*ev.NShards() < limit {
			mine = append(mine, dirs[i])
		}
	}
	ev.Count("testdata_packages_selected", len(mine))
	fs, err := runRepoDirs(mine, evalOpts{label: "unchanged testdata package"})
	if err != nil {
		ev.Infra("runner on testdata: %v", err)
		return
	}
	if ev.Thorough() && ev.Shard() == 0 {
		more, err := runRepoDirs([]string{"./..."}, evalOpts{label: "repository package", maxTypes: 12})
		if err != nil {
			ev.Infra("runner on ./...: %v", err)
		}
		fs = append(fs, more...)
	}
	for i := range fs {
		f := &fs[i]
		if ev.IsKnown(f.sig) {
			ev.KnownFinding(f.sig, f.msg)
			continue
		}
		rp := &Replay{Kind: "apply", Check: f.check, Files: f.files, Note: f.sig}
		ev.Violate("TestTestdata", "["+f.sig+"] "+f.msg, "json", rp.bytes())
		t.Errorf("%s", f.msg)
	}
}

// ---------------------------------------------------------------- mutated variants

// mutKinds are the rewrites named by the property's quantifier. Line breaks are
// inserted inside expressions only (srcmut.NewlineExpr): a break between, say,
// the keyword "for" and its "{" is outside the quantified domain.
var mutKinds = []srcmut.Kind{srcmut.Comment, srcmut.CommentExpr, srcmut.NewlineExpr, srcmut.NewlineExpr, srcmut.Paren, srcmut.Paren, srcmut.Rename, srcmut.CRLF, srcmut.Shift}

type mutPkg struct {
	Dir   string            `json:"dir"`
	Files map[string]string `json:"files"`
	Muts  []srcmut.Mutation `json:"mutations"`
}

func loadTestdataPkg(dir string) []srcmut.File {
	abs := filepath.Join("/repo", dir)
	ms, _ := filepath.Glob(filepath.Join(abs, "*.go"))
	sort.Strings(ms)
	var out []srcmut.File
	for _, f := range ms {
		if strings.HasSuffix(f, "_test.go") {
			continue
		}
		b, err := os.ReadFile(f)
		if err != nil {
			continue
		}
		out = append(out, srcmut.File{Name: filepath.Base(f), Src: b})
	}
	return out
}

// withModule writes the packages into a fresh module (one directory each), runs
// the analyzers and hands every loaded package result to fn.
func withModule(pkgs []map[string]string, only []*analysis.Analyzer, fn func(idx int, r runner.Result) error) error {
	dir, err := os.MkdirTemp("", "c16-")
	if err != nil {
		return err
	}
	defer os.RemoveAll(dir)
	os.WriteFile(filepath.Join(dir, "go.mod"), []byte("module m\n\ngo 1.26.0\n"), 0o644)
	for i, files := range pkgs {
		pd := filepath.Join(dir, fmt.Sprintf("p%03d", i))
		os.MkdirAll(pd, 0o755)
		for n, s := range files {
			os.WriteFile(filepath.Join(pd, n), []byte(s), 0o644)
		}
	}
	as := only
	if as == nil {
		as = analyzers()
	}
	return rn.Run(rn.Options{Dir: dir, CacheDir: cacheDir()}, as, []string{"./..."}, func(res []runner.Result) error {
		for _, r := range res {
			if !r.Initial {
				continue
			}
			var idx int
			if _, err := fmt.Sscanf(strings.TrimPrefix(r.Package.PkgPath, "m/"), "p%03d", &idx); err != nil || idx >= len(pkgs) {
				continue
			}
			if r.Failed {
				ev.Count("packages_failed_to_load", 1)
				continue
			}
			if err := fn(idx, r); err != nil {
				return err
			}
		}
		return nil
	})
}

// runModule validates all diagnostics and fixes of the packages.
func runModule(pkgs []map[string]string, o evalOpts, only []*analysis.Analyzer) ([][]finding, error) {
	out := make([][]finding, len(pkgs))
	err := withModule(pkgs, only, func(idx int, r runner.Result) error {
		if o.mutated {
			ev.Count("packages_analysed_mutated", 1)
		}
		fs, err := validateResult(r, o)
		if err != nil {
			return err
		}
		out[idx] = fs
		return nil
	})
	return out, err
}

type byteRange struct{ s, e int }

// hotRanges analyses the unchanged packages and returns, per package and file
// (base name), the byte ranges of the lines touched by diagnostics that carry
// fixes: mutations are steered there.
func hotRanges(pkgs []map[string]string) ([]map[string][]byteRange, error) {
	out := make([]map[string][]byteRange, len(pkgs))
	err := withModule(pkgs, nil, func(idx int, r runner.Result) error {
		data, err := r.Load()
		if err != nil {
			return err
		}
		m := map[string][]byteRange{}
		for _, d := range data.Diagnostics {
			if len(d.SuggestedFixes) == 0 {
				continue
			}
			base := filepath.Base(d.Position.Filename)
			src, ok := pkgs[idx][base]
			if !ok {
				continue
			}
			lo, hi := d.Position.Line, d.Position.Line
			upd := func(p token.Position) {
				if p.Line > 0 && filepath.Base(p.Filename) == base {
					lo, hi = min(lo, p.Line), max(hi, p.Line)
				}
			}
			upd(d.End)
			for _, f := range d.SuggestedFixes {
				for _, e := range f.TextEdits {
					upd(e.Position)
					upd(e.End)
				}
			}
			ls := lineStarts([]byte(src))
			if lo < 1 || hi > len(ls) {
				continue
			}
			end := len(src)
			if hi < len(ls) {
				end = ls[hi]
			}
			m[base] = append(m[base], byteRange{ls[lo-1], end})
		}
		out[idx] = m
		return nil
	})
	return out, err
}

var mutatedCases, shapeCases int

func TestMutated(t *testing.T) {
	ev.Rule(rule)
	defer flushStats()
	dirs := testdataDirs()
	if len(dirs) < 200 {
		ev.Infra("only %d testdata packages found", len(dirs))
		return
	}
	var fixDirs []string
	emit := map[string]bool{}
	for _, c := range fixEmitters("simple", "quickfix", "staticcheck", "stylecheck") {
		emit[strings.ToLower(c)] = true
	}
	for _, d := range dirs {
		if parts := strings.Split(d, "/"); len(parts) > 2 && emit[parts[2]] {
			fixDirs = append(fixDirs, d)
		}
	}
	if len(fixDirs) < 30 {
		ev.Infra("only %d testdata packages of fix-emitting checks found", len(fixDirs))
		return
	}
	batch := ev.EnvInt("C16_BATCH", 4, 6)
	maxMut := ev.EnvInt("C16_MUTATIONS", 3, 20)
	ev.Assume("srcmut variants are equivalent to their originals (verified by srcmut's own test: equal go/types fingerprints); a variant that no longer type-checks while the original does is discarded and counted as gen_invalid")
	ev.Assume("type-checking of patched packages uses go/types with the source importer; a package whose ORIGINAL does not type-check that way (sibling testdata imports, vendored paths, deliberate errors) is inconclusive for the type-check clause")
	ev.Check(t, "TestMutated", func(rt *rapid.T) {
		if pastShare(0.40, &mutatedCases) {
			return
		}
		var dirsDrawn []string
		var loaded [][]srcmut.File
		var plain []map[string]string
		for len(dirsDrawn) < batch {
			// two of three packages come from the checks that emit fixes
			pool := dirs
			if uniform(rt, 3, "pool") != 0 {
				pool = fixDirs
			}
			d := pool[uniform(rt, len(pool), "dir")]
			files := loadTestdataPkg(d)
			if len(files) == 0 {
				continue
			}
			dirsDrawn = append(dirsDrawn, d)
			loaded = append(loaded, files)
			m := map[string]string{}
			for _, f := range files {
				m[f.Name] = string(f.Src)
			}
			plain = append(plain, m)
		}
		// phase 1: where do the unchanged packages get fixes? (harness-side knowledge used to aim the mutations)
		{
			var unchanged []mutPkg
			for i, d := range dirsDrawn {
				unchanged = append(unchanged, mutPkg{Dir: d, Files: plain[i]})
			}
			js, _ := json.Marshal(unchanged)
			ev.Begin("TestMutated", "json", js)
		}
		hot, err := hotRanges(plain)
		if err != nil {
			ev.Count("infra_skipped", 1)
			ev.Extra("last_infra", err.Error())
			rt.Skip(err.Error())
		}
		var pkgs []mutPkg
		for pi, d := range dirsDrawn {
			files := loaded[pi]
			n := 1
			if maxMut > 1 {
				n = 1 + uniform(rt, maxMut, "nmut")
			}
			var muts []srcmut.Mutation
			crlf := false
			pick := func(k int) int { return uniform(rt, k, "pick") }
			for i := 0; i < n; i++ {
				kind := mutKinds[uniform(rt, len(mutKinds), "kind")]
				if kind == srcmut.Paren && strings.Contains(d, "/sa1006/") && !include("sa1006-parenthesised-callee") {
					// recorded finding sa1006-parenthesised-callee: (fmt.Printf)(s) is rewritten to (fmt.Printf(s)
					ev.Count("excluded_by_known_finding_sa1006_parenthesised_callee", 1)
					kind = srcmut.CommentExpr
				}
				if kind == srcmut.CRLF {
					crlf = true // line endings are converted last: a CRLF file is not rewritten further
					continue
				}
				var focus srcmut.Focus
				if hr := hot[pi]; len(hr) > 0 && uniform(rt, 4, "aim") != 0 {
					focus = func(file string, s, e int) bool {
						for _, r := range hr[file] {
							if s < r.e && e >= r.s {
								return true
							}
						}
						return false
					}
					ev.Count("mutation_aimed_at_fix", 1)
				}
				out, m, err := srcmut.ApplyAt(files, kind, pick, lockedImporter{}, focus)
				if err != nil {
					ev.Count("mutation_not_applicable", 1)
					continue
				}
				files = out
				muts = append(muts, *m)
				ev.Count("mutation_"+string(kind), 1)
				// keep the aimed-at ranges in step with the rewritten file
				if m.Inserted == nil {
					hot[pi] = nil
				} else if hr := hot[pi][m.File]; len(hr) > 0 {
					for i := len(m.Inserted) - 1; i >= 0; i-- {
						o, l := m.Inserted[i][0], m.Inserted[i][1]
						for j := range hr {
							if hr[j].s >= o {
								hr[j].s += l
								hr[j].e += l
							} else if hr[j].e > o {
								hr[j].e += l
							}
						}
					}
				}
			}
			if crlf {
				if out, m, err := srcmut.Apply(files, srcmut.CRLF, pick, nil); err == nil {
					files = out
					muts = append(muts, *m)
					ev.Count("mutation_crlf", 1)
				}
			}
			mp := mutPkg{Dir: d, Files: map[string]string{}, Muts: muts}
			for _, f := range files {
				mp.Files[f.Name] = string(f.Src)
			}
			pkgs = append(pkgs, mp)
		}
		js, _ := json.Marshal(pkgs)
		ev.Begin("TestMutated", "json", js)
		var in []map[string]string
		for _, p := range pkgs {
			in = append(in, p.Files)
		}
		res, err := runModule(in, evalOpts{mutated: true, label: "mutated testdata package"}, nil)
		if err != nil {
			ev.Count("infra_skipped", 1)
			ev.Extra("last_infra", err.Error())
			rt.Skip(err.Error())
		}
		for i, fs := range res {
			for j := range fs {
				fs[j].msg = fmt.Sprintf("(variant of %s, mutations %+v) %s", pkgs[i].Dir, pkgs[i].Muts, fs[j].msg)
			}
			msgs, first := reportFindings(fs)
			if first != nil {
				rp := &Replay{Kind: "apply", Check: first.check, Files: pkgs[i].Files, Note: first.sig + "; variant of " + pkgs[i].Dir}
				ev.Begin("TestMutated", "json", rp.bytes())
				ev.Failf(rt, "TestMutated", "%s", strings.Join(msgs, "\n"))
			}
		}
		if ev.WantSample() {
			ev.Sample(map[string]any{"kind": "mutated testdata", "dir": pkgs[0].Dir, "mutations": pkgs[0].Muts})
		}
	})
}

// ---------------------------------------------------------------- corpus / replay

func replayFile(t *testing.T, f, test string) {
	b, err := os.ReadFile(f)
	if err != nil {
		ev.Infra("read %s: %v", f, err)
		return
	}
	var rp Replay
	if err := json.Unmarshal(b, &rp); err != nil || len(rp.Files) == 0 {
		// a TestMutated batch
		var batch []mutPkg
		if err2 := json.Unmarshal(b, &batch); err2 != nil || len(batch) == 0 {
			ev.Infra("decode %s: %v", f, err)
			return
		}
		for _, p := range batch {
			replayOne(t, f, test, &Replay{Kind: "apply", Files: p.Files, Note: p.Dir}, b)
		}
		return
	}
	replayOne(t, f, test, &rp, b)
}

func replayOne(t *testing.T, f, test string, rp *Replay, raw []byte) {
	var msgs []string
	switch rp.Kind {
	case "behaviour":
		fs, infra := evalBehaviour(rp.Files, nil)
		if infra != "" {
			ev.Infra("%s: %s", f, infra)
			return
		}
		msgs, _ = reportFindings(fs)
	default:
		res, err := runModule([]map[string]string{rp.Files}, evalOpts{mutated: true, label: "replayed package"}, nil)
		if err != nil {
			ev.Infra("%s: %v", f, err)
			return
		}
		msgs, _ = reportFindings(res[0])
	}
	if len(msgs) > 0 {
		msg := fmt.Sprintf("replay of %s:\n%s", f, strings.Join(msgs, "\n"))
		ev.Violate(test, msg, "json", raw)
		t.Errorf("%s", msg)
	} else {
		t.Logf("replay %s: property holds (or finding recorded as known)", f)
	}
}

func TestCorpus(t *testing.T) {
	defer flushStats()
	files, _ := filepath.Glob(filepath.Join(os.Getenv("VERIF_ROOT"), "corpus", "C16", "*.json"))
	sort.Strings(files)
	for i, f := range files {
		if i%ev.NShards() != ev.Shard() {
			continue
		}
		replayFile(t, f, "TestCorpus")
	}
}

func TestReplay(t *testing.T) {
	if f := ev.ReplayFile(); f != "" {
		defer flushStats()
		replayFile(t, f, "TestReplay")
	}
}
