package c16

import (
	"fmt"
	"go/ast"
	"go/parser"
	"sort"
	"strings"
	"sync"

	"pgregory.net/rapid"
	"verif/harness/internal/ev"
)

// The behavioural clause works on generated functions of one fixed signature
// (sigParams); the prelude below is compiled into the original and the fixed
// package alike.

const sigParams = "a, b int, s, t string, h bool, xs []int, m map[string]int, bs []byte, e error, fl float64, v any"

const prelude = `package p

import (
	"fmt"
	"strings"
)

var (
	Trace []string
	gI    int
	gS    string
)

func Reset() { Trace = nil; gI = 0; gS = "" }

func State() string { return fmt.Sprintf("trace=%v gI=%d gS=%q", Trace, gI, gS) }

func tr(k, v int) int          { Trace = append(Trace, fmt.Sprintf("%d:%d", k, v)); return v }
func trs(k int, v string) string { Trace = append(Trace, fmt.Sprintf("%d:%q", k, v)); return v }
func trb(k int, v bool) bool   { Trace = append(Trace, fmt.Sprintf("%d:%v", k, v)); return v }
func trf(k int, v float64) float64 { Trace = append(Trace, fmt.Sprintf("%d:%v", k, v)); return v }
func trx(k int, v []int) []int { Trace = append(Trace, fmt.Sprintf("%d:%v", k, v)); return v }
func trbs(k int, v []byte) []byte { Trace = append(Trace, fmt.Sprintf("%d:%q", k, v)); return v }
func trm(k int, v map[string]int) map[string]int {
	Trace = append(Trace, fmt.Sprintf("%d:%v", k, v))
	return v
}

type MyInt int
type MyStr string
type MyBool bool

type Inner struct{ Z int }
type Base struct {
	Inner
	ID int
}
type St struct {
	Base
	A int
	B string
}

func (b *Base) Bump(n int) int { b.ID += n; return b.ID }

type T1 struct {
	A int
	B string
}
type T2 struct {
	A int
	B string
}

// Strg implements fmt.Stringer.
type Strg struct{ V string }

func (s Strg) String() string { return "Strg(" + s.V + ")" }

// ES implements both error and fmt.Stringer.
type ES struct{ V string }

func (e ES) Error() string  { return "error(" + e.V + ")" }
func (e ES) String() string { return "stringer(" + e.V + ")" }

// W is an io.Writer and io.StringWriter with a value receiver.
type W struct{ sb *strings.Builder }

func (w W) Write(p []byte) (int, error)       { gI++; return w.sb.Write(p) }
func (w W) WriteString(s string) (int, error) { gI++; return w.sb.WriteString(s) }

func mkW(k int) W { Trace = append(Trace, fmt.Sprintf("mkW%d", k)); return W{&strings.Builder{}} }
`

// gen draws the holes of one instance.
type gen struct {
	t       *rapid.T
	key     int
	pure    int // >0: no tracing calls (positions where the check refuses operands with side effects)
	trace   bool
	multi   bool
	low     bool
	imports map[string]string // path -> local name ("" = default)
	shadows []string
	alias   int // 0 plain imports, 1 aliased imports, 2 aliased imports and the real names shadowed by locals
	// noRightNest: do not generate X op (Y op Z) with a non-associative op
	// (excluded input class of the recorded finding simplify-parentheses)
	noRightNest bool
}

// excluded counts an input class that the generator leaves out because of a recorded finding.
func excluded(class string) { ev.Count("excluded_by_known_finding_"+class, 1) }

// mix is a bijective mixer with mix(0) == 0: rapid's integer generators favour
// small values; mixing gives (nearly) uniform choices while shrinking still
// moves every choice towards its first alternative.
func mix(u uint64) uint64 {
	u *= 0x9E3779B97F4A7C15
	u ^= u >> 32
	u *= 0xD6E8FEB86659FD93
	u ^= u >> 32
	return u
}

func uniform(t *rapid.T, k int, label string) int {
	if k <= 1 {
		return 0
	}
	return int((mix(rapid.Uint64().Draw(t, label)) >> 8) % uint64(k))
}

func (g *gen) n(k int) int { return uniform(g.t, k, "c") }

func (g *gen) k() int { g.key++; return g.key }

// q returns the qualifier for a std package and records the import.
func (g *gen) q(path string) string {
	base := path[strings.LastIndex(path, "/")+1:]
	if g.alias == 0 {
		g.imports[path] = ""
		return base
	}
	name := base + "x"
	if _, ok := g.imports[path]; !ok && g.alias == 2 {
		g.shadows = append(g.shadows, base)
	}
	g.imports[path] = name
	return name
}

// guarded marks a hole where the check refuses operands with side effects. Most
// instances respect that (so that the check fires); one in four does not: on
// the unchanged tree such an instance yields no diagnostic, and a check that
// lost its guard is caught.
func (g *gen) guarded() func() {
	if g.n(4) == 0 {
		return func() {}
	}
	g.pure++
	return func() { g.pure-- }
}

func (g *gen) pick(xs ...string) string { return xs[g.n(len(xs))] }

// nearOperands returns declarations and two comparisons P1 == c1 (false at run
// time) and P2 == c2 (true at run time) whose left operands differ in one
// sub-expression only, or (one time in five) not at all.
func (g *gen) nearOperands() (pre, p1, c1, p2, c2 string) {
	pre = "\tu := \"ab\" + s\n\tys := append([]int{4, 5, 6}, xs...)\n\tst := St{Base: Base{ID: 7}, A: 8}\n\tmm := map[string]int{\"a\": 1, \"b\": 2}\n\tpa, pb := &ys[0], &ys[1]\n\tfn := func(k int) int { return k * 2 }\n\tvar av any = T1{A: 1}\n\t_, _, _, _, _, _, _, _ = u, ys, st, mm, pa, pb, fn, av\n"
	type pr struct{ p1, c1, p2, c2 string }
	pairs := []pr{
		{"u[:1]", "\"x\"", "u[:2]", "\"ab\""},
		{"u[0:1]", "\"b\"", "u[1:2]", "\"b\""},
		{"u[1:2:2]", "\"a\"", "u[1:2:3]", "\"b\""},
		{"ys[0]", "5", "ys[1]", "5"},
		{"st.A", "7", "st.ID", "7"},
		{"st.Base.ID", "8", "st.A", "8"},
		{"mm[\"a\"]", "2", "mm[\"b\"]", "2"},
		{"*pa", "5", "*pb", "5"},
		{"fn(1)", "4", "fn(2)", "4"},
		{"(T1{A: 1}).A", "2", "(T1{A: 2}).A", "2"},
		{"([]int{1, 2})[0]", "2", "([]int{1, 2})[1]", "2"},
		{"(ys[0])", "5", "(ys[1])", "5"},
		{"-ys[0]", "-5", "-ys[1]", "-5"},
		{"ys[0] + 1", "6", "ys[1] + 1", "6"},
		{"len(ys[:1])", "2", "len(ys[:2])", "2"},
		{"av.(T1).A", "2", "av.(T1).A + 1", "2"},
		{"func() int { return 1 }()", "2", "func() int { return 2 }()", "2"},
		{"MyInt(ys[0])", "5", "MyInt(ys[1])", "5"},
	}
	x := pairs[g.n(len(pairs))]
	if g.n(5) == 0 {
		return pre, x.p2, x.c1, x.p2, x.c2 // control: the same operand in both branches
	}
	return pre, x.p1, x.c1, x.p2, x.c2
}

func (g *gen) intAtom() string {
	return g.pick("a", "b", "0", "1", "2", "3", "-1", "len(s)", "len(xs)", "int(MyInt(a))", "a", "b")
}

func (g *gen) intE(d int) string {
	if d <= 0 {
		return g.intAtom()
	}
	switch g.n(11) {
	case 0, 1, 2:
		return g.intAtom()
	case 3:
		g.low = true
		return g.intE(d-1) + " + " + g.intE(d-1)
	case 4:
		g.low = true
		return g.intE(d-1) + " - " + g.intAtom()
	case 5:
		g.low = true
		if g.noRightNest {
			excluded("right_nested_nonassociative_operand")
			return g.intAtom() + " - " + g.intAtom()
		}
		return g.intAtom() + " - (" + g.intE(d-1) + " - " + g.intAtom() + ")"
	case 6:
		return g.intAtom() + " * " + g.intAtom()
	case 7:
		g.multi, g.low = true, true
		return g.intE(d-1) + " +\n\t\t" + g.intE(d-1)
	case 8:
		return "(" + g.intE(d-1) + ")"
	default:
		if g.pure > 0 {
			return g.intAtom()
		}
		g.trace = true
		return fmt.Sprintf("tr(%d, %s)", g.k(), g.intE(d-1))
	}
}

func (g *gen) strAtom() string {
	return g.pick("s", "t", `"a"`, `""`, `"ab"`, `"é"`, "string(MyStr(s))", "s", "t")
}

func (g *gen) strE(d int) string {
	if d <= 0 {
		return g.strAtom()
	}
	switch g.n(9) {
	case 0, 1, 2, 3:
		return g.strAtom()
	case 4:
		g.low = true
		return g.strE(d-1) + " + " + g.strE(d-1)
	case 5:
		g.multi, g.low = true, true
		return g.strE(d-1) + " +\n\t\t" + g.strE(d-1)
	case 6:
		return "(" + g.strE(d-1) + ")"
	default:
		if g.pure > 0 {
			return g.strAtom()
		}
		g.trace = true
		return fmt.Sprintf("trs(%d, %s)", g.k(), g.strE(d-1))
	}
}

func (g *gen) boolAtom() string {
	switch g.n(8) {
	case 0, 1:
		return "h"
	case 2:
		g.low = true
		return g.intE(1) + " < " + g.intE(1)
	case 3:
		g.low = true
		return g.intE(1) + " == " + g.intE(1)
	case 4:
		g.low = true
		return g.strE(1) + " == " + g.strE(1)
	case 5:
		return "!h"
	case 6:
		g.low = true
		return "len(xs) > 1"
	default:
		if g.pure > 0 {
			return "h"
		}
		g.trace = true
		return fmt.Sprintf("trb(%d, h)", g.k())
	}
}

func (g *gen) boolE(d int) string {
	if d <= 0 {
		return g.boolAtom()
	}
	switch g.n(10) {
	case 0, 1, 2:
		return g.boolAtom()
	case 3:
		g.low = true
		return g.boolE(d-1) + " && " + g.boolE(d-1)
	case 4:
		g.low = true
		return g.boolE(d-1) + " || " + g.boolE(d-1)
	case 5:
		return "!(" + g.boolE(d-1) + ")"
	case 6:
		return "(" + g.boolE(d-1) + ")"
	case 7:
		g.multi, g.low = true, true
		return g.boolE(d-1) + " &&\n\t\t" + g.boolE(d-1)
	case 8:
		g.low = true
		return g.intE(d-1) + " >= " + g.intE(d-1)
	default:
		if g.pure > 0 {
			return g.boolAtom()
		}
		g.trace = true
		return fmt.Sprintf("trb(%d, %s)", g.k(), g.boolE(d-1))
	}
}

func (g *gen) fltE(d int) string {
	atom := func() string { return g.pick("fl", "fl", "float64(a)", "2", "3.0", "fl") }
	if d <= 0 {
		return atom()
	}
	switch g.n(8) {
	case 0, 1, 2:
		return atom()
	case 3:
		g.low = true
		return g.fltE(d-1) + " + " + atom()
	case 4:
		g.low = true
		if g.noRightNest {
			excluded("right_nested_nonassociative_operand")
			return atom() + " - 1"
		}
		return atom() + " - (" + g.fltE(d-1) + " - 1)"
	case 5:
		if !include("qf1005-regrouped-multiplication") {
			// a product as operand: x*y*x*y instead of (x*y)*(x*y) differs in the last bits
			excluded("float_product_regrouped")
			return atom()
		}
		return atom() + " * (" + g.fltE(d-1) + " * 0.1)"
	case 6:
		g.multi, g.low = true, true
		return g.fltE(d-1) + " +\n\t\t" + atom()
	default:
		if g.pure > 0 {
			return atom()
		}
		g.trace = true
		return fmt.Sprintf("trf(%d, %s)", g.k(), g.fltE(d-1))
	}
}

func (g *gen) bytesE() string {
	switch g.n(5) {
	case 0, 1:
		return "bs"
	case 2:
		return "[]byte(" + g.strE(1) + ")"
	case 3:
		return "bs[:len(bs)/2]"
	default:
		if g.pure > 0 {
			return "bs"
		}
		g.trace = true
		return fmt.Sprintf("trbs(%d, bs)", g.k())
	}
}

// isBinary reports whether the expression text is a binary expression at top level.
func isBinary(x string) bool {
	e, err := parser.ParseExpr(x)
	if err != nil {
		return false
	}
	_, ok := e.(*ast.BinaryExpr)
	return ok
}

// shape is one trigger template.
type shape struct {
	check    string
	name     string
	aliasing bool // the replacement text names a package: try aliased and shadowed imports
	weight   int  // relative frequency (0 = 1); expression-level rewrites are drawn more often
	// build returns the result list and the body of the function.
	build func(g *gen) (results, body string)
}

// exemptChecks have fixes that are documented (by their very purpose) not to be equivalent rewrites.
var exemptChecks = map[string]string{
	"QF1009": "time.Time.Equal deliberately differs from == (monotonic clock, location)",
	"QF1010": "printing string(b) instead of b deliberately changes the output",
}

var shapes = []shape{
	{check: "S1001", name: "range-copy", build: func(g *gen) (string, string) {
		extra := g.pick("0", "0", "1")
		size := "len(xs)+" + extra
		if include("s1001-destination-shorter-than-source") && g.n(4) == 0 {
			size = "2" // recorded finding s1001-destination-shorter-than-source
		} else if !include("s1001-destination-shorter-than-source") {
			excluded("s1001_destination_may_be_shorter")
		}
		loop := g.pick(
			"for i, x := range xs {\n\t\tdst[i] = x\n\t}",
			"for i := range xs {\n\t\tdst[i] = xs[i]\n\t}",
			"for i := 0; i < len(xs); i++ {\n\t\tdst[i] = xs[i]\n\t}")
		return "[]int", fmt.Sprintf("\tdst := make([]int, %s)\n\t%s\n\treturn dst\n", size, loop)
	}},
	{check: "S1001", name: "array-assign", build: func(g *gen) (string, string) {
		return "[3]int", "\tvar src, dst [3]int\n\tsrc[0], src[1], src[2] = " + g.intE(1) + ", b, len(xs)\n\tfor i, x := range src {\n\t\tdst[i] = x\n\t}\n\treturn dst\n"
	}},
	{check: "S1002", weight: 2, name: "bool-cmp", build: func(g *gen) (string, string) {
		x := g.boolE(2)
		if g.n(8) == 0 {
			x, g.low = "h == !h", true
		}
		px := x
		if isBinary(x) {
			px = "(" + x + ")" // "true == a < b" would not type-check
			if !include("s1002-unparenthesised-operand") {
				// recorded finding s1002-unparenthesised-operand: "a == b == false" is rewritten to "!a == b"
				excluded("s1002_binary_operand_without_parentheses")
				x = px
			}
		}
		cmp := g.pick(x+" == true", x+" == false", x+" != true", x+" != false", "true == "+px, "false != "+px)
		switch g.n(3) {
		case 0:
			return "int", "\tif " + cmp + " {\n\t\treturn 1\n\t}\n\treturn 0\n"
		case 1:
			return "bool", "\treturn " + cmp + "\n"
		default:
			return "bool", "\tr := !(" + cmp + ")\n\treturn r\n"
		}
	}},
	{check: "S1003", weight: 2, name: "strings-index", build: func(g *gen) (string, string) {
		pkg := g.q("strings")
		var call string
		switch g.n(3) {
		case 0:
			call = pkg + ".Index(" + g.strE(2) + ", " + g.strE(1) + ")"
		case 1:
			call = pkg + ".IndexAny(" + g.strE(2) + ", " + g.strE(1) + ")"
		default:
			call = pkg + ".IndexRune(" + g.strE(2) + ", 'a')"
		}
		cmp := call + " " + g.pick("!= -1", "== -1", "> -1", ">= 0", "< 0")
		switch g.n(3) {
		case 0:
			return "bool", "\treturn " + cmp + "\n"
		case 1:
			return "bool", "\treturn !(" + cmp + ") || h\n"
		default:
			return "int", "\tif " + cmp + " {\n\t\treturn 1\n\t}\n\treturn 0\n"
		}
	}},
	{check: "S1004", name: "bytes-compare", aliasing: true, build: func(g *gen) (string, string) {
		cmp := g.q("bytes") + ".Compare(" + g.bytesE() + ", " + g.bytesE() + ") " + g.pick("== 0", "!= 0")
		if g.n(2) == 0 {
			return "bool", "\treturn " + cmp + "\n"
		}
		return "bool", "\treturn h && " + cmp + "\n"
	}},
	{check: "S1005", name: "blank-range", build: func(g *gen) (string, string) {
		x := g.pick("xs", "xs", "s", "m")
		if g.n(3) == 0 && g.pure == 0 {
			g.trace = true
			x = fmt.Sprintf("trx(%d, xs)", g.k())
		}
		switch g.n(3) {
		case 0:
			return "int", "\tn := 0\n\tfor _ = range " + x + " {\n\t\tn++\n\t}\n\treturn n\n"
		case 1:
			return "int", "\tn := 0\n\tfor _, _ = range " + x + " {\n\t\tn++\n\t}\n\treturn n\n"
		default:
			return "int", "\tn := 0\n\tfor i, _ := range " + x + " {\n\t\t_ = i\n\t\tn++\n\t}\n\treturn n\n"
		}
	}},
	{check: "S1005", name: "blank-recv", build: func(g *gen) (string, string) {
		pre := "\tch := make(chan int, 2)\n\tch <- " + g.intE(2) + "\n\tch <- 7\n"
		switch g.n(2) {
		case 0:
			return "int", pre + "\t_ = <-ch\n\treturn <-ch\n"
		default:
			return "int", pre + "\tx, _ := <-ch\n\treturn x + <-ch\n"
		}
	}},
	{check: "S1010", name: "slice-len", build: func(g *gen) (string, string) {
		if g.n(2) == 0 {
			low := g.pick("1", "0", "a & 1", "", "tr(1, 1)")
			if strings.Contains(low, "tr(") {
				g.trace = true
			}
			return "[]int", "\tif len(xs) < 2 {\n\t\treturn nil\n\t}\n\treturn xs[" + low + ":len(xs)]\n"
		}
		return "string", "\tif len(s) < 2 {\n\t\treturn t\n\t}\n\treturn s[" + g.pick("1", "0", "a & 1", "") + ":len(s)] + t\n"
	}},
	{check: "S1011", name: "loop-append", build: func(g *gen) (string, string) {
		x := "xs"
		switch g.n(4) {
		case 0:
			x = "xs[:len(xs)/2]"
		case 1:
			if g.pure == 0 {
				g.trace = true
				x = fmt.Sprintf("trx(%d, xs)", g.k())
			}
		}
		pre := "\tvar r []int\n"
		if g.n(2) == 0 {
			pre = "\tr := []int{" + g.intE(1) + "}\n"
		}
		switch g.n(3) {
		case 0:
			return "[]int", pre + "\tfor _, e := range " + x + " {\n\t\tr = append(r, e)\n\t}\n\treturn r\n"
		case 1:
			return "[]int", pre + "\tfor i := range xs {\n\t\tr = append(r, xs[i])\n\t}\n\treturn r\n"
		default:
			return "[]int", pre + "\tfor i := range xs {\n\t\te := xs[i]\n\t\tr = append(r, e)\n\t}\n\treturn r\n"
		}
	}},
	{check: "S1012", name: "time-since", aliasing: true, build: func(g *gen) (string, string) {
		tm := g.q("time")
		arg := g.pick(tm+".Unix(int64("+g.intE(1)+"), 0)", tm+".Now().Add("+tm+".Hour * "+tm+".Duration(1+("+g.intE(1)+")&7))", "t0")
		return "bool", "\tt0 := " + tm + ".Unix(1, 0)\n\t_ = t0\n\treturn " + tm + ".Now().Sub(" + arg + ") > 0\n"
	}},
	{check: "S1016", name: "struct-conv", build: func(g *gen) (string, string) {
		lit := g.pick("T2{A: x.A, B: x.B}", "T2{x.A, x.B}", "T2{\n\t\tA: x.A,\n\t\tB: x.B,\n\t}")
		if strings.Contains(lit, "\n") {
			g.multi = true
		}
		pre := "\tx := T1{A: " + g.intE(2) + ", B: " + g.strE(1) + "}\n"
		switch g.n(3) {
		case 0:
			return "T2", pre + "\treturn " + lit + "\n"
		case 1:
			return "int", pre + "\treturn " + lit + ".A + 1\n"
		default:
			return "T2", pre + "\ty := " + lit + "\n\ty.A++\n\treturn y\n"
		}
	}},
	{check: "S1018", name: "slide", build: func(g *gen) (string, string) {
		guard := "\tif off > len(xs) {\n\t\toff = len(xs)\n\t}\n\tn := len(xs) - off\n"
		if include("s1018-count-or-offset-out-of-range") && g.n(3) == 0 {
			guard = "\tn := " + g.intE(1) + "\n" // recorded finding s1018-count-or-offset-out-of-range
		} else if !include("s1018-count-or-offset-out-of-range") {
			excluded("s1018_count_or_offset_unguarded")
		}
		return "[]int", "\toff := (" + g.intE(1) + ") & 3\n" + guard + "\tfor i := 0; i < n; i++ {\n\t\txs[i] = xs[off+i]\n\t}\n\treturn xs\n"
	}},
	{check: "S1021", name: "decl-assign", build: func(g *gen) (string, string) {
		switch g.n(4) {
		case 0:
			return "int", "\tvar x int\n\tx = " + g.intE(2) + "\n\treturn x\n"
		case 1:
			return "string", "\tvar x string\n\tx = " + g.strE(2) + "\n\treturn x\n"
		case 2:
			return "any", "\tvar x any\n\tx = " + g.intE(2) + "\n\treturn x\n"
		default:
			return "MyInt", "\tvar x MyInt\n\tx = MyInt(" + g.intE(2) + ")\n\treturn x + 1\n"
		}
	}},
	{check: "S1021", name: "decl-compound-assign", build: func(g *gen) (string, string) {
		// near miss: the statement after the declaration is not a plain assignment
		op := g.pick("-=", "*=", "+=", "|=", "<<=", "/=", "&^=")
		e := g.intE(1)
		if op == "/=" || op == "<<=" {
			e = "(" + e + ")&3 + 1"
		}
		switch g.n(3) {
		case 0:
			return "int", "\tvar x int\n\tx " + op + " " + e + "\n\treturn x\n"
		case 1:
			return "int", "\tvar x int\n\tvar y int\n\ty = " + g.intE(1) + "\n\tx " + op + " " + e + "\n\treturn x + y\n"
		default:
			if op == "+=" {
				return "string", "\tvar x string\n\tx += " + g.strE(1) + "\n\treturn x\n"
			}
			return "int", "\tvar x, y int\n\tx, y = " + g.intE(1) + ", " + g.intE(1) + "\n\tx " + op + " " + e + "\n\treturn x - y\n"
		}
	}},
	{check: "S1024", name: "time-until", aliasing: true, build: func(g *gen) (string, string) {
		tm := g.q("time")
		recv := g.pick(tm+".Unix(int64("+g.intE(1)+"), 0)", tm+".Now().Add("+tm+".Hour * "+tm+".Duration(1+("+g.intE(1)+")&7))", "t0", "(t0)", "t0.Add("+tm+".Hour)")
		return "bool", "\tt0 := " + tm + ".Unix(1, 0)\n\t_ = t0\n\treturn " + recv + ".Sub(" + tm + ".Now()) > 0\n"
	}},
	{check: "S1025", weight: 2, name: "sprintf-s", build: func(g *gen) (string, string) {
		f := g.q("fmt")
		var arg string
		switch g.n(5) {
		case 0, 1:
			arg = g.strE(2)
		case 2:
			arg = "MyStr(" + g.strE(1) + ")"
		case 3:
			arg = g.bytesE()
		default:
			arg = "Strg{" + g.strE(1) + "}"
			if include("s1025-stringer-that-is-also-error") && g.n(2) == 0 {
				arg = "ES{" + g.strE(1) + "}" // recorded finding s1025-stringer-that-is-also-error
			} else if !include("s1025-stringer-that-is-also-error") {
				excluded("s1025_stringer_that_is_also_error")
			}
		}
		call := f + `.Sprintf("%s", ` + arg + ")"
		form := g.n(5)
		if form >= 3 && !include("replacement-not-parenthesised-for-context") {
			// recorded finding replacement-not-parenthesised-for-context: Sprintf("%s", a+b)[i:] becomes a+b[i:]
			excluded("s1025_result_sliced_or_indexed")
			form = 0
		}
		switch form {
		case 0:
			return "string", "\treturn " + call + "\n"
		case 1:
			return "string", "\treturn " + call + " + t\n"
		case 2:
			return "int", "\treturn len(" + call + ")\n"
		case 3:
			return "string", "\treturn " + call + "[len(t):]\n"
		default:
			return "byte", "\treturn (" + call + " + \"x\")[0] + " + call + "[0]\n"
		}
	}},
	{check: "S1028", name: "errors-new-sprintf", aliasing: true, build: func(g *gen) (string, string) {
		f := g.q("fmt")
		args := g.pick(`"%d", `+g.intE(2), `"%s-%d", `+g.strE(1)+", "+g.intE(1), `"%v|%v", `+g.intE(1)+", "+g.boolE(1), `"plain"`)
		if g.n(4) == 0 {
			// the last argument is spread
			return "error", "\tvs := []any{" + g.intE(1) + ", " + g.strE(1) + "}\n\treturn " + g.q("errors") + ".New(" + f + ".Sprintf(\"%v/%v\", vs...))\n"
		}
		return "error", "\treturn " + g.q("errors") + ".New(" + f + ".Sprintf(" + args + "))\n"
	}},
	{check: "S1030", weight: 2, name: "buffer-bytes", build: func(g *gen) (string, string) {
		pre := "\tvar buf " + g.q("bytes") + ".Buffer\n\tbuf.WriteString(" + g.strE(1) + ")\n\tpb := &buf\n\t_ = pb\n"
		recv := g.pick("buf", "pb", "(&buf)", "(*pb)")
		if g.n(2) == 0 {
			return "string", pre + "\treturn string(" + recv + ".Bytes()) + t\n"
		}
		if !include("s1030-bytes-differs-from-copy") {
			// recorded finding s1030-bytes-aliases-buffer: []byte(buf.String()) is a fresh non-nil slice, buf.Bytes() is not
			excluded("s1030_bytes_of_string")
			return "string", pre + "\treturn string(" + recv + ".Bytes())\n"
		}
		return "[]byte", pre + "\treturn []byte(" + recv + ".String())\n"
	}},
	{check: "S1030", name: "buffer-defined-type", build: func(g *gen) (string, string) {
		// near miss: the conversion goes to a defined string type, not to string
		pre := "\tvar buf " + g.q("bytes") + ".Buffer\n\tbuf.WriteString(" + g.strE(1) + ")\n"
		switch g.n(3) {
		case 0:
			return "MyStr", pre + "\treturn MyStr(buf.Bytes())\n"
		case 1:
			return "string", pre + "\th := MyStr(buf.Bytes())\n\treturn " + g.q("fmt") + ".Sprintf(\"%T %v\", h, h)\n"
		default:
			return "any", pre + "\tvar v any = MyStr(buf.Bytes())\n\treturn v\n"
		}
	}},
	{check: "S1033", name: "guarded-delete", build: func(g *gen) (string, string) {
		if !include("s1033-key-evaluated-once") {
			// recorded finding s1033-key-evaluated-once: the guard's key expression is dropped
			excluded("s1033_key_with_side_effects")
			g.pure++
			defer func() { g.pure-- }()
		}
		k := g.strE(1)
		return "int", "\tif m == nil {\n\t\treturn -1\n\t}\n\tif _, ok := m[" + k + "]; ok {\n\t\tdelete(m, " + k + ")\n\t}\n\treturn len(m)\n"
	}},
	{check: "S1034", name: "type-switch", build: func(g *gen) (string, string) {
		if include("s1034-assignment-to-switched-variable") && g.n(3) == 0 {
			// recorded finding s1034-assignment-to-switched-variable
			return "int", "\tswitch v.(type) {\n\tcase int:\n\t\tn := v.(int)\n\t\tv = \"s\"\n\t\treturn n + len(v.(string))\n\t}\n\treturn -1\n"
		} else if !include("s1034-assignment-to-switched-variable") {
			excluded("s1034_switched_variable_assigned")
		}
		if g.n(4) == 0 {
			// comma-ok form of the assertion inside a clause
			return "int", "\tswitch v.(type) {\n\tcase int:\n\t\tn, ok := v.(int)\n\t\tif ok {\n\t\t\treturn n + " + g.intE(1) + "\n\t\t}\n\tcase string:\n\t\tvar s2, ok2 = v.(string)\n\t\tif ok2 {\n\t\t\treturn len(s2)\n\t\t}\n\t}\n\treturn -1\n"
		}
		return "int", "\tswitch v.(type) {\n\tcase int:\n\t\treturn v.(int) + " + g.intE(1) + "\n\tcase string:\n\t\treturn len(v.(string))\n\tcase nil:\n\t\treturn -2\n\t}\n\treturn -1\n"
	}},
	{check: "S1036", name: "map-guard", build: func(g *gen) (string, string) {
		done := g.guarded()
		k := g.strE(1)
		done()
		pre := "\tif m == nil {\n\t\treturn -1\n\t}\n"
		switch g.n(3) {
		case 0:
			val := g.intE(1)
			return "int", pre + "\tif _, ok := m[" + k + "]; ok {\n\t\tm[" + k + "] += " + val + "\n\t} else {\n\t\tm[" + k + "] = " + val + "\n\t}\n\treturn len(m)\n"
		case 1:
			return "int", pre + "\tif _, ok := m[" + k + "]; ok {\n\t\tm[" + k + "]++\n\t} else {\n\t\tm[" + k + "] = 1\n\t}\n\treturn len(m)\n"
		default:
			val := g.intE(1)
			return "int", "\tmm := map[string][]int{\"a\": {1}}\n\tif _, ok := mm[" + k + "]; ok {\n\t\tmm[" + k + "] = append(mm[" + k + "], " + val + ")\n\t} else {\n\t\tmm[" + k + "] = []int{" + val + "}\n\t}\n\treturn len(mm) + len(mm[\"a\"])\n"
		}
	}},
	{check: "S1037", name: "elaborate-sleep", aliasing: true, build: func(g *gen) (string, string) {
		tm := g.q("time")
		return "int", "\tselect {\n\tcase <-" + tm + ".After(" + tm + ".Duration((" + g.intE(1) + ")&3)):\n\t}\n\treturn 1\n"
	}},
	{check: "S1039", name: "sprint-literal", build: func(g *gen) (string, string) {
		f := g.q("fmt")
		lit := g.pick(`"abc"`, `"a\tb"`, "`raw\\n`", `""`, `"é"`)
		call := f + "." + g.pick("Sprintf", "Sprint") + "(" + lit + ")"
		switch g.n(3) {
		case 0:
			return "string", "\treturn " + call + "\n"
		case 1:
			return "string", "\treturn " + call + " + " + g.strE(1) + "\n"
		default:
			return "int", "\treturn len(" + call + ")\n"
		}
	}},
	{check: "QF1001", weight: 2, name: "demorgan", build: func(g *gen) (string, string) {
		var inner string
		switch g.n(4) {
		case 0:
			inner = g.boolE(1) + " && " + g.boolE(1)
		case 1:
			inner = g.boolE(1) + " || " + g.boolE(1)
		case 2:
			inner = g.intE(2) + " " + g.pick("==", "<", ">=", "!=") + " " + g.intE(2)
		default:
			inner = g.boolE(2) + " " + g.pick("&&", "||") + " (" + g.boolE(1) + " " + g.pick("&&", "||") + " " + g.boolE(1) + ")"
		}
		g.low = true
		x := "!(" + inner + ")"
		if include("qf1001-negation-under-unary-operator") && g.n(6) == 0 {
			return "bool", "\treturn !" + x + "\n" // recorded finding qf1001-negation-under-unary-operator
		} else if !include("qf1001-negation-under-unary-operator") {
			excluded("qf1001_operand_of_unary_operator")
		}
		switch g.n(5) {
		case 0:
			return "bool", "\treturn " + x + "\n"
		case 1:
			return "int", "\tif " + x + " {\n\t\treturn 1\n\t}\n\treturn 0\n"
		case 2:
			return "bool", "\treturn h && " + x + "\n"
		case 3:
			return "bool", "\tr := " + x + "\n\treturn r\n"
		default:
			return "bool", "\treturn trb(99, " + x + ")\n"
		}
	}},
	{check: "QF1002", name: "tagless-switch", build: func(g *gen) (string, string) {
		defer g.guarded()()
		x := g.intE(1)
		vals := []string{"1", "2", "3", "b", "len(s)"}
		c1 := x + " == " + vals[g.n(2)]
		c2 := x + " == " + vals[2+g.n(3)] + " || " + x + " == 7"
		init := ""
		if g.n(4) == 0 {
			init = "y := a; "
			c1 = "y == 1"
			c2 = "y == 2 || y == (3)"
		}
		return "int", "\tswitch " + init + "{\n\tcase " + c1 + ":\n\t\treturn 1\n\tcase " + c2 + ":\n\t\treturn 2\n\tdefault:\n\t\treturn 3\n\t}\n"
	}},
	{check: "QF1003", name: "if-else-chain", build: func(g *gen) (string, string) {
		defer g.guarded()()
		if g.n(3) == 0 {
			x := g.strE(1)
			return "int", "\tr := 0\n\tif " + x + " == \"a\" {\n\t\tr = 1\n\t} else if " + x + " == \"ab\" || " + x + " == t {\n\t\tr = 2\n\t} else {\n\t\tr = 3\n\t}\n\treturn r\n"
		}
		x := g.intE(1)
		els := g.pick(" else {\n\t\tr = 3\n\t}", "")
		two := "2"
		if include("tagged-switch-duplicate-case") && g.n(4) == 0 {
			two = "1" // recorded finding tagged-switch-duplicate-case
		} else if !include("tagged-switch-duplicate-case") {
			excluded("tagged_switch_duplicate_constant")
		}
		return "int", "\tr := 0\n\tif " + x + " == 1 {\n\t\tr = 1\n\t} else if " + x + " == " + two + " || " + x + " == (b) {\n\t\tr = 2\n\t}" + els + "\n\treturn r\n"
	}},
	{check: "QF1003", name: "chain-near-operands", weight: 2, build: func(g *gen) (string, string) {
		// the compared operands of the branches look alike but are not the same expression
		// (or are, for the control): only identical operands may become the tag of a switch
		pre, p1, c1, p2, c2 := g.nearOperands()
		if g.n(2) == 0 {
			return "int", pre + "\tr := 0\n\tif " + p1 + " == " + c1 + " {\n\t\tr = 1\n\t} else if " + p2 + " == " + c2 + " {\n\t\tr = 2\n\t} else {\n\t\tr = 3\n\t}\n\treturn r\n"
		}
		return "int", pre + "\tswitch {\n\tcase " + p1 + " == " + c1 + ":\n\t\treturn 1\n\tcase " + p2 + " == " + c2 + ":\n\t\treturn 2\n\tdefault:\n\t\treturn 3\n\t}\n"
	}},
	{check: "QF1004", name: "replace-all", aliasing: true, build: func(g *gen) (string, string) {
		switch g.n(3) {
		case 0:
			return "string", "\treturn " + g.q("strings") + ".Replace(" + g.strE(2) + ", " + g.strE(1) + ", " + g.strE(1) + ", -1)\n"
		case 1:
			return "[]string", "\treturn " + g.q("strings") + ".SplitN(" + g.strE(2) + ", " + g.strE(1) + ", -1)\n"
		default:
			return "[]byte", "\treturn " + g.q("bytes") + ".Replace(" + g.bytesE() + ", []byte(" + g.strE(1) + "), " + g.bytesE() + ", -1)\n"
		}
	}},
	{check: "QF1005", weight: 2, name: "math-pow", build: func(g *gen) (string, string) {
		done := g.guarded()
		x := g.fltE(2)
		done()
		call := g.q("math") + ".Pow(" + x + ", " + g.pick("2", "3", "2", "1", "0") + ")"
		form := g.n(4)
		if form >= 1 && !include("replacement-not-parenthesised-for-context") {
			// recorded finding replacement-not-parenthesised-for-context: 2 / math.Pow(x, 2) becomes 2 / x * x
			excluded("qf1005_call_is_operand")
			form = 0
		}
		switch form {
		case 0:
			return "float64", "\treturn " + call + "\n"
		case 1:
			return "float64", "\treturn 1 - " + call + " / 2\n"
		case 2:
			return "float64", "\treturn 8 / " + call + "\n"
		default:
			return "float64", "\treturn fl - " + call + "\n"
		}
	}},
	{check: "QF1006", name: "for-if-break", build: func(g *gen) (string, string) {
		cond := "i > 3 || " + g.boolE(2)
		switch g.n(6) {
		case 0, 1:
			cond = "i >= (" + g.intE(1) + ")&3"
		case 2:
			// floating point comparison; nan is NaN for some inputs
			cond = "i > 3 || nan < 3.0"
		case 3:
			cond = "i > 3 || !(nan >= fl)"
		case 4:
			// composite literal in the condition
			cond = "(T1{A: i} == T1{A: 2 + (a & 1)})"
		}
		label, cont := "", ""
		// the jump over i == 2 would keep the equality of the composite literal variant from ever holding
		if g.n(3) == 0 && !strings.Contains(cond, "T1{A: i}") {
			label = "L:\n\t"
			cont = "\t\tif i == 1 {\n\t\t\ti += 2\n\t\t\tcontinue L\n\t\t}\n"
		}
		return "int", "\tnan := " + g.q("math") + ".Log(-1 + fl*float64(a&1))\n\t_ = nan\n\ti, r := 0, 0\n\t" + label + "for {\n\t\tif " + cond + " {\n\t\t\tbreak\n\t\t}\n" + cont + "\t\ti++\n\t\tr += i\n\t}\n\treturn r\n"
	}},
	{check: "QF1007", weight: 2, name: "cond-assign", build: func(g *gen) (string, string) {
		c := g.boolE(2)
		if g.n(2) == 0 {
			return "bool", "\tx := false\n\tif " + c + " {\n\t\tx = true\n\t}\n\treturn x\n"
		}
		return "bool", "\tx := true\n\tif " + c + " {\n\t\tx = false\n\t}\n\treturn x\n"
	}},
	{check: "QF1008", name: "embedded-selector", build: func(g *gen) (string, string) {
		pre := "\tst := St{Base: Base{Inner: Inner{Z: " + g.intE(1) + "}, ID: a}, A: b}\n\tp := &st\n\t_ = p\n"
		recv := g.pick("st", "p", "(&st)")
		switch g.n(4) {
		case 0:
			return "int", pre + "\treturn " + recv + ".Base.ID\n"
		case 1:
			return "int", pre + "\treturn " + recv + ".Base.Inner.Z\n"
		case 2:
			return "int", pre + "\t" + recv + ".Base.ID = " + g.intE(1) + "\n\treturn st.ID + st.A\n"
		default:
			return "int", pre + "\treturn " + recv + ".Base.Bump(" + g.intE(1) + ") + st.Base.\n\t\tInner.Z\n"
		}
	}},
	{check: "QF1009", name: "time-equal", build: func(g *gen) (string, string) {
		tm := g.q("time")
		return "bool", "\tt0 := " + tm + ".Unix(int64(a), 0)\n\tt1 := " + tm + ".Unix(int64(b), 0).UTC()\n\treturn t0 == t1\n"
	}},
	{check: "QF1010", name: "print-bytes", build: func(g *gen) (string, string) {
		return "string", "\treturn " + g.q("fmt") + ".Sprint(" + g.bytesE() + ", a)\n"
	}},
	{check: "QF1012", weight: 2, name: "write-sprintf", aliasing: true, build: func(g *gen) (string, string) {
		f := g.q("fmt")
		var fn, args string
		switch g.n(4) {
		case 0:
			fn, args = "Sprintf", `("%d", `+g.intE(2)+")"
		case 1:
			fn, args = "Sprintf", `("%s-%d", `+g.strE(1)+", "+g.intE(1)+")"
		case 2:
			fn, args = "Sprint", "("+g.strE(1)+", "+g.intE(1)+")"
		default:
			fn, args = "Sprintln", "("+g.strE(1)+")"
		}
		call := f + "." + fn + args
		spread := ""
		if g.n(4) == 0 {
			// the last argument is spread
			spread = "\tvs := []any{" + g.intE(1) + ", " + g.strE(1) + "}\n"
			call = f + "." + g.pick("Sprintf(\"%v/%v\", vs...)", "Sprint(vs...)", "Sprintln(vs...)")
		}
		sb := ""
		form := g.n(5)
		if form == 4 && !include("qf1012-address-of-unaddressable-receiver") {
			// recorded finding qf1012-address-of-unaddressable-receiver
			excluded("qf1012_receiver_not_addressable")
			form = 3
		}
		if form != 2 && form != 4 {
			sb = g.q("strings")
		}
		switch form {
		case 0:
			return "string", spread + "\tvar sb " + sb + ".Builder\n\tsb.WriteString(" + call + ")\n\treturn sb.String()\n"
		case 1:
			return "(string, int, error)", spread + "\tsb := &" + sb + ".Builder{}\n\tn, err := sb.WriteString(" + call + ")\n\treturn sb.String(), n, err\n"
		case 2:
			return "string", spread + "\tvar buf " + g.q("bytes") + ".Buffer\n\tbuf.Write([]byte(" + call + "))\n\treturn buf.String()\n"
		case 3:
			return "string", spread + "\tw := W{&" + sb + ".Builder{}}\n\tw.WriteString(" + call + ")\n\treturn w.sb.String()\n"
		default:
			return "int", spread + "\tn, _ := mkW(1).Write([]byte(" + call + "))\n\treturn n\n"
		}
	}},
}

var shapeTable = sync.OnceValue(func() []*shape {
	var out []*shape
	for i := range shapes {
		for k := 0; k < max(1, shapes[i].weight); k++ {
			out = append(out, &shapes[i])
		}
	}
	return out
})

// instance is one generated function.
type instance struct {
	Name    string
	Check   string
	Shape   string
	Src     string // whole file
	Trace   bool
	Multi   bool
	Low     bool
	Alias   int
	Results string
}

func (in *instance) nontrivialHoles() bool { return in.Trace || in.Multi || in.Low }

func buildInstance(t *rapid.T, idx int, sh *shape) *instance {
	g := &gen{t: t, imports: map[string]string{}}
	g.noRightNest = !include("simplify-parentheses-changes-structure")
	if sh.aliasing {
		switch g.n(6) {
		case 0:
			g.alias = 1
		case 1:
			g.alias = 2
			if !include("fix-names-shadowed-package") {
				// recorded finding fix-names-shadowed-package: replacement text spells the package name
				excluded("shadowed_package_name")
				g.alias = 1
			}
		}
	}
	results, body := sh.build(g)
	name := fmt.Sprintf("F%d", idx)
	var sb strings.Builder
	sb.WriteString("package p\n\n")
	if len(g.imports) > 0 {
		var paths []string
		for p := range g.imports {
			paths = append(paths, p)
		}
		sort.Strings(paths)
		sb.WriteString("import (\n")
		for _, p := range paths {
			if n := g.imports[p]; n != "" {
				fmt.Fprintf(&sb, "\t%s %q\n", n, p)
			} else {
				fmt.Fprintf(&sb, "\t%q\n", p)
			}
		}
		sb.WriteString(")\n\n")
	}
	fmt.Fprintf(&sb, "func %s(%s) %s {\n", name, sigParams, results)
	for _, s := range g.shadows {
		fmt.Fprintf(&sb, "\t%s := 0\n\t_ = %s\n", s, s)
	}
	sb.WriteString(body)
	sb.WriteString("}\n")
	return &instance{Name: name, Check: sh.check, Shape: sh.name, Src: sb.String(), Trace: g.trace, Multi: g.multi, Low: g.low, Alias: g.alias, Results: results}
}
