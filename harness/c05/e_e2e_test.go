package c05

import (
	"bytes"
	"fmt"
	"os"
	"os/exec"
	"path/filepath"
	"sort"
	"strconv"
	"strings"
	"sync"
	"syscall"
	"testing"
	"time"

	"honnef.co/go/tools/lintcmd/cache"
	"pgregory.net/rapid"
	"verif/harness/internal/ev"
)

// ---------------------------------------------------------------------------
// sub-check 4: linter results through a damaged / shared cache equal the cold-cache results

var e2eFiles = map[string]string{
	"go.mod": "module example.com/m\n\ngo 1.26.0\n",
	"dep/dep.go": `// Package dep is the dependency.
package dep

// Old does nothing.
//
// Deprecated: use New.
func Old() int { return 1 }

// New is new.
func New() int { return 2 }

// Pure has no side effects.
func Pure(x int) int { return x * 2 }

func unusedDep() {}
`,
	"app/app.go": `package app

import (
	"container/list"
	"math/bits"
	"unicode"
	"unicode/utf16"
	"unicode/utf8"

	"example.com/m/dep"
)

func F(xs []int) int {
	n := dep.Old()
	for _ = range xs {
		n++
	}
	dep.Pure(n)
	var s []int
	if s != nil {
		for range s {
		}
	}
	//lint:ignore S1005 on purpose
	for _ = range xs {
	}
	return n + dep.New()
}

func G(s string) bool {
	l := list.New()
	_ = utf16.IsSurrogate(1)
	return utf8.RuneCountInString(s) == bits.Len(3)+l.Len() && unicode.IsUpper(1)
}

func unusedApp() {}
`,
}

type FileDesc struct {
	Kind     string `json:"kind"`      // a | d
	DataSize int64  `json:"data_size"` // size of the data file (for an index file: the size its entry announces)
	Nth      int    `json:"nth"`       // position among the files of that kind and data size, by name
}

type E2ECase struct {
	Mode          string    `json:"mode"` // fault | kill | conc | aged
	File          *FileDesc `json:"file,omitempty"`
	Fault         string    `json:"fault,omitempty"`         // trunc0 | trunc1 | half | last | remove
	KillAtFiles   int       `json:"kill_at_files,omitempty"` // kill: SIGKILL once this many entry files exist (0: after delay_permille of the cold-run time), then extra_ms
	ExtraMs       int       `json:"extra_ms,omitempty"`
	DelayPermille int       `json:"delay_permille,omitempty"` // kill: delay as a fraction of the measured cold-run time
	DelayMs       int       `json:"delay_ms,omitempty"`       // kill: the delay actually used (informative)
	Listing       []cfile   `json:"cache_listing_after_kill,omitempty"`
	Stagger       []int     `json:"stagger_ms,omitempty"` // one staticcheck process per element, started after that many ms
	TrimDelayMs   int       `json:"trim_delay_ms,omitempty"`
}

type e2eFile struct {
	rel  string
	size int64
	desc FileDesc
}

type e2eEnv struct {
	root   string
	mod    string
	tmpl   string
	ref    []byte
	refRC  int
	files  []e2eFile
	coldMs int // wall time of the cold reference run
}

var (
	e2eOnce sync.Once
	e2eE    *e2eEnv
	e2eErr  error
)

func e2eCleanup() {
	if e2eE != nil {
		os.RemoveAll(e2eE.root)
		e2eE, e2eErr, e2eOnce = nil, nil, sync.Once{}
	}
}

func e2eSetup() (*e2eEnv, error) {
	e2eOnce.Do(func() {
		root, err := os.MkdirTemp("", "c05-e2e-")
		if err != nil {
			e2eErr = err
			return
		}
		env := &e2eEnv{root: root, mod: filepath.Join(root, "mod"), tmpl: filepath.Join(root, "tmpl")}
		e2eE = env
		for name, src := range e2eFiles {
			p := filepath.Join(env.mod, name)
			os.MkdirAll(filepath.Dir(p), 0o755)
			if err := os.WriteFile(p, []byte(src), 0o644); err != nil {
				e2eErr = err
				return
			}
		}
		os.MkdirAll(env.tmpl, 0o755)
		t0 := time.Now()
		out, stderr, rc, err := env.run(env.tmpl)
		env.coldMs = int(time.Since(t0).Milliseconds())
		if err != nil {
			e2eErr = fmt.Errorf("reference run: %v", err)
			return
		}
		if rc != 1 || !bytes.Contains(out, []byte(`"SA1019"`)) || !bytes.Contains(out, []byte(`"SA4017"`)) || !bytes.Contains(out, []byte(`"U1000"`)) || bytes.Contains(out, []byte(`"compile"`)) {
			e2eErr = fmt.Errorf("reference run: unexpected result rc=%d stdout=%s stderr=%s", rc, out, stderr)
			return
		}
		env.ref, env.refRC = out, rc
		// a second cold run and a warm run must reproduce it, else there is nothing to compare with
		cold2 := filepath.Join(root, "cold2")
		os.MkdirAll(cold2, 0o755)
		dirs := []string{env.tmpl}
		if ev.Thorough() {
			dirs = []string{cold2, env.tmpl}
		}
		for _, d := range dirs {
			out2, _, rc2, err := env.run(d)
			if err != nil || rc2 != rc || !bytes.Equal(out2, out) {
				e2eErr = fmt.Errorf("staticcheck output is not reproducible on the fixture (cache %s): rc %d vs %d, %v", d, rc2, rc, err)
				return
			}
		}
		os.RemoveAll(cold2)
		env.describe()
	})
	return e2eE, e2eErr
}

func (env *e2eEnv) run(cacheDir string) (stdout, stderr []byte, rc int, err error) {
	cmd := env.cmd(cacheDir)
	var o, e bytes.Buffer
	cmd.Stdout, cmd.Stderr = &o, &e
	err = cmd.Run()
	if ee, ok := err.(*exec.ExitError); ok {
		rc, err = ee.ExitCode(), nil
	}
	return o.Bytes(), e.Bytes(), rc, err
}

func (env *e2eEnv) cmd(cacheDir string) *exec.Cmd {
	cmd := exec.Command(bin("staticcheck"), "-f", "json", "./...")
	cmd.Dir = env.mod
	cmd.Env = append(os.Environ(), "STATICCHECK_CACHE="+cacheDir, "GOFLAGS=-mod=mod", "GOPROXY=off")
	return cmd
}

func parseIndexSize(b []byte) int64 {
	if len(b) != entrySize {
		return -1
	}
	n, err := strconv.ParseInt(strings.TrimSpace(string(b[3+64+1+64+1:3+64+1+64+1+20])), 10, 64)
	if err != nil {
		return -1
	}
	return n
}

func (env *e2eEnv) describe() {
	for _, f := range entryFiles(listCache(env.tmpl)) {
		ef := e2eFile{rel: f.Rel, size: f.Size}
		ef.desc.Kind = f.Rel[len(f.Rel)-1:]
		ef.desc.DataSize = f.Size
		if ef.desc.Kind == "a" {
			b, _ := os.ReadFile(filepath.Join(env.tmpl, f.Rel))
			ef.desc.DataSize = parseIndexSize(b)
		}
		env.files = append(env.files, ef)
	}
	sort.Slice(env.files, func(i, j int) bool {
		a, b := env.files[i], env.files[j]
		if a.desc.Kind != b.desc.Kind {
			return a.desc.Kind < b.desc.Kind
		}
		if a.desc.DataSize != b.desc.DataSize {
			return a.desc.DataSize < b.desc.DataSize
		}
		return a.rel < b.rel
	})
	for i := range env.files {
		if i > 0 && env.files[i-1].desc.Kind == env.files[i].desc.Kind && env.files[i-1].desc.DataSize == env.files[i].desc.DataSize {
			env.files[i].desc.Nth = env.files[i-1].desc.Nth + 1
		}
	}
}

func (env *e2eEnv) find(d FileDesc) *e2eFile {
	var sameKind []*e2eFile
	for i := range env.files {
		f := &env.files[i]
		if f.desc == d {
			return f
		}
		if f.desc.Kind == d.Kind {
			sameKind = append(sameKind, f)
		}
	}
	// replay in another directory: sizes may differ slightly; take the file of that kind with the same rank
	if len(sameKind) > 0 {
		return sameKind[(d.Nth+int(d.DataSize))%len(sameKind)]
	}
	return nil
}

func copyTree(src, dst string) error {
	return filepath.Walk(src, func(p string, info os.FileInfo, err error) error {
		if err != nil {
			return err
		}
		rel, _ := filepath.Rel(src, p)
		if info.IsDir() {
			return os.MkdirAll(filepath.Join(dst, rel), 0o777)
		}
		b, err := os.ReadFile(p)
		if err != nil {
			return err
		}
		return os.WriteFile(filepath.Join(dst, rel), b, 0o666)
	})
}

var e2eFaults = []string{"trunc0", "trunc1", "half", "last", "remove"}

func (env *e2eEnv) compare(what string, out, stderr []byte, rc int) string {
	if rc == env.refRC && bytes.Equal(out, env.ref) {
		return ""
	}
	return fmt.Sprintf("%s: staticcheck -f json differs from the cold-cache reference\nexit status %d, reference %d\nstdout:\n%s\nreference stdout:\n%s\nstderr:\n%s\n", what, rc, env.refRC, clipStr(string(out), 1500), clipStr(string(env.ref), 1500), clipStr(string(stderr), 800))
}

// tmplDamage classifies the state of dir relative to the intact template.
func (env *e2eEnv) tmplDamage(dir string) damage {
	known := map[string]int{}
	for _, f := range env.files {
		if f.desc.Kind == "d" {
			known[strings.TrimSuffix(filepath.Base(f.rel), "-d")] = int(f.size)
		}
	}
	return scanDamage(dir, known)
}

func (env *e2eEnv) eval(c E2ECase) (res result) {
	dir, err := os.MkdirTemp(env.root, "cache-")
	if err != nil {
		res.infra = err.Error()
		return
	}
	defer os.RemoveAll(dir)
	switch c.Mode {
	case "fault":
		if err := copyTree(env.tmpl, dir); err != nil {
			res.infra = err.Error()
			return
		}
		f := env.find(*c.File)
		if f == nil {
			res.infra = "no such cache file"
			return
		}
		p := filepath.Join(dir, f.rel)
		newLen := int64(-1)
		switch c.Fault {
		case "trunc0":
			newLen = 0
		case "trunc1":
			newLen = 1
		case "half":
			newLen = f.size / 2
		case "last":
			newLen = f.size - 1
		case "remove":
		default:
			res.infra = "unknown fault " + c.Fault
			return
		}
		if newLen >= f.size {
			newLen = -2 // not a fault on this file (too short)
		}
		switch {
		case newLen == -1:
			err = os.Remove(p)
		case newLen >= 0:
			err = os.Truncate(p, newLen)
		}
		if err != nil {
			res.infra = err.Error()
			return
		}
		dmg := env.tmplDamage(dir)
		out, stderr, rc, err := env.run(dir)
		if err != nil {
			res.infra = err.Error()
			return
		}
		res.msg = env.compare(fmt.Sprintf("cache file %s (%s, %d bytes) of a populated cache: %s", f.rel, f.desc.Kind, f.size, c.Fault), out, stderr, rc)
		if res.msg == "" {
			// the run healed the cache: again
			out, stderr, rc, _ = env.run(dir)
			res.msg = env.compare(fmt.Sprintf("second run after cache file %s (%s, %d bytes): %s", f.rel, f.desc.Kind, f.size, c.Fault), out, stderr, rc)
		}
		res.nontrivial = dmg.any()
		res.hash = ev.Hash("e2e-fault", f.desc.Kind, fmt.Sprint(f.desc.DataSize), itoa(f.desc.Nth), c.Fault)
		res.classes = append([]string{"e2e", "e2e_fault_" + c.Fault + "_" + f.desc.Kind}, damageClasses(dmg)...)
	case "kill":
		cmd := env.cmd(dir)
		var o, e bytes.Buffer
		cmd.Stdout, cmd.Stderr = &o, &e
		if err := cmd.Start(); err != nil {
			res.infra = err.Error()
			return
		}
		exited := make(chan error, 1)
		go func() { exited <- cmd.Wait() }()
		t0 := time.Now()
		var werr error
		waited := false
		if c.KillAtFiles > 0 {
		poll:
			for time.Since(t0) < 10*time.Minute {
				if len(entryFiles(listCacheFull(dir))) >= c.KillAtFiles {
					break
				}
				select {
				case werr = <-exited:
					waited = true
					break poll
				case <-time.After(time.Millisecond):
				}
			}
			time.Sleep(time.Duration(c.ExtraMs) * time.Millisecond)
		} else {
			time.Sleep(time.Duration(env.coldMs*c.DelayPermille/1000) * time.Millisecond)
		}
		c.DelayMs = int(time.Since(t0).Milliseconds())
		cmd.Process.Signal(syscall.SIGKILL)
		if !waited {
			werr = <-exited
		}
		killed := werr != nil && !cmd.ProcessState.Exited()
		c.Listing = listCache(dir)
		res.artefact = c.Listing
		rep := Replay{Kind: "e2e-kill", E2E: &c}
		ev.Begin("TestE2EKill", "json", rep.bytes()) // the archived artefact: what the dead process left behind
		dmg := env.tmplDamage(dir)
		nfiles := len(entryFiles(c.Listing))
		if !killed {
			res.classes = append(res.classes, "e2e_kill_after_exit")
			if m := env.compare(fmt.Sprintf("cold run that ended before the kill at %d ms", c.DelayMs), o.Bytes(), e.Bytes(), cmd.ProcessState.ExitCode()); m != "" {
				res.msg = m
			}
		}
		for i := 0; i < 2 && res.msg == ""; i++ {
			out, stderr, rc, err := env.run(dir)
			if err != nil {
				res.infra = err.Error()
				return
			}
			res.msg = env.compare(fmt.Sprintf("run %d on the cache left by a staticcheck killed after %d ms (%d entry files: %s)", i+1, c.DelayMs, nfiles, listingString(entryFiles(c.Listing))), out, stderr, rc)
		}
		res.nontrivial = killed && (dmg.any() || nfiles > 0 && nfiles < len(env.files))
		res.hash = ev.Hash("e2e-kill", itoa(nfiles), fmt.Sprint(dmg.ShortData, dmg.ShortIndex, dmg.Dangling, dmg.OrphanData))
		res.classes = append(res.classes, "e2e", "e2e_kill")
		if killed {
			switch {
			case nfiles == 0:
				res.classes = append(res.classes, "e2e_kill_before_first_store")
			case nfiles < len(env.files):
				res.classes = append(res.classes, "e2e_kill_partially_populated")
			default:
				res.classes = append(res.classes, "e2e_kill_fully_populated")
			}
		}
		res.classes = append(res.classes, damageClasses(dmg)...)
	case "conc", "aged":
		aged := c.Mode == "aged"
		if aged {
			if err := copyTree(env.tmpl, dir); err != nil {
				res.infra = err.Error()
				return
			}
			for _, f := range env.files {
				ageFile(filepath.Join(dir, f.rel), 6)
			}
			os.Remove(filepath.Join(dir, "trim.txt"))
		}
		type run struct {
			out, stderr bytes.Buffer
			cmd         *exec.Cmd
			err         error
		}
		runs := make([]*run, len(c.Stagger))
		var wg sync.WaitGroup
		for i, d := range c.Stagger {
			r := &run{cmd: env.cmd(dir)}
			r.cmd.Stdout, r.cmd.Stderr = &r.out, &r.stderr
			runs[i] = r
			wg.Add(1)
			go func(d int) {
				defer wg.Done()
				time.Sleep(time.Duration(d) * time.Millisecond)
				r.err = r.cmd.Run()
			}(d)
		}
		stop := make(chan struct{})
		var bg sync.WaitGroup
		seen := map[string]int64{}
		var seenMu sync.Mutex
		snapshot := func() {
			for _, f := range entryFiles(listCache(dir)) {
				seenMu.Lock()
				if f.Size > seen[f.Rel] || seen[f.Rel] == 0 {
					seen[f.Rel] = f.Size
				}
				seenMu.Unlock()
			}
		}
		trims := 0
		if aged {
			bg.Add(1)
			go func() {
				defer bg.Done()
				time.Sleep(time.Duration(c.TrimDelayMs) * time.Millisecond)
				if cc, err := cache.Open(dir); err == nil {
					cc.Trim()
					trims++
				}
			}()
		} else {
			// fresh entries: a trimmer that really scans (no trim.txt) all the time
			bg.Add(2)
			go func() {
				defer bg.Done()
				cc, err := cache.Open(dir)
				if err != nil {
					return
				}
				for {
					select {
					case <-stop:
						return
					default:
					}
					os.Remove(filepath.Join(dir, "trim.txt"))
					cc.Trim()
					trims++
					time.Sleep(2 * time.Millisecond)
				}
			}()
			go func() {
				defer bg.Done()
				for {
					select {
					case <-stop:
						return
					default:
					}
					snapshot()
					time.Sleep(5 * time.Millisecond)
				}
			}()
		}
		wg.Wait()
		close(stop)
		bg.Wait()
		ev.Count("e2e_trim_passes_during_runs", trims)
		var sb strings.Builder
		for i, r := range runs {
			rc := 0
			if ee, ok := r.err.(*exec.ExitError); ok {
				rc = ee.ExitCode()
			} else if r.err != nil {
				res.infra = r.err.Error()
				return
			}
			sb.WriteString(env.compare(fmt.Sprintf("process %d of %d concurrent staticcheck runs (start offsets %v ms, aged=%v, trim at %d ms) on one cache", i, len(runs), c.Stagger, aged, c.TrimDelayMs), r.out.Bytes(), r.stderr.Bytes(), rc))
		}
		if !aged {
			final := map[string]int64{}
			for _, f := range entryFiles(listCache(dir)) {
				final[f.Rel] = f.Size
			}
			for rel := range seen {
				if _, ok := final[rel]; !ok {
					fmt.Fprintf(&sb, "cache file %s existed during the concurrent runs and is gone afterwards although every entry is fresh (Trim ran %d times)\n", rel, trims)
				}
			}
			if len(final) < len(env.files) {
				fmt.Fprintf(&sb, "%d entry files after %d concurrent runs, a single run leaves %d\n", len(final), len(runs), len(env.files))
			}
		}
		if sb.Len() == 0 {
			out, stderr, rc, _ := env.run(dir)
			sb.WriteString(env.compare("run after the concurrent runs", out, stderr, rc))
		}
		res.msg = sb.String()
		res.nontrivial = true // several writers/readers (and a trimmer) were active on the same files
		res.hash = ev.Hash("e2e-"+c.Mode, fmt.Sprint(c.Stagger), itoa(c.TrimDelayMs))
		res.classes = []string{"e2e", "e2e_" + c.Mode + "_procs_" + itoa(len(c.Stagger))}
	default:
		res.infra = "unknown e2e mode " + c.Mode
	}
	return
}

func e2eEnvOrSkip(t *testing.T) *e2eEnv {
	env, err := e2eSetup()
	if err != nil {
		ev.Infra("e2e setup: %v", err)
		return nil
	}
	return env
}

func TestE2EFaults(t *testing.T) {
	defer timed("TestE2EFaults")()
	ev.Rule(rule)
	env := e2eEnvOrSkip(t)
	if env == nil {
		return
	}
	ev.Extra("e2e_cache_entry_files", len(env.files))
	type st struct {
		f     int
		fault string
	}
	var states []st
	for i, f := range env.files {
		for _, ft := range e2eFaults {
			if (ft == "trunc1" && f.size <= 1) || (ft == "half" && f.size/2 == 0 && f.size <= 1) || (ft == "last" && f.size <= 1) || (ft == "trunc0" && f.size == 0) {
				continue
			}
			states = append(states, st{i, ft})
		}
	}
	ev.Extra("e2e_fault_states", len(states))
	if ev.Thorough() {
		runEnumerated(t, "TestE2EFaults", len(states), func(i int) (result, Replay) {
			d := env.files[states[i].f].desc
			c := E2ECase{Mode: "fault", File: &d, Fault: states[i].fault}
			return env.eval(c), Replay{Kind: "e2e-fault", E2E: &c}
		})
		return
	}
	scaled(0.5, 2, func() {
		ev.Check(t, "TestE2EFaults", func(rt *rapid.T) {
			s := states[rapid.IntRange(0, len(states)-1).Draw(rt, "state")]
			d := env.files[s.f].desc
			c := E2ECase{Mode: "fault", File: &d, Fault: s.fault}
			rep := Replay{Kind: "e2e-fault", E2E: &c}
			ev.Begin("TestE2EFaults", "json", rep.bytes())
			res := env.eval(c)
			if res.infra != "" {
				ev.Infra("TestE2EFaults: %s", res.infra)
				rt.Skip(res.infra)
			}
			ev.Case(res.hash, res.nontrivial, res.classes...)
			if res.msg != "" {
				ev.Failf(rt, "TestE2EFaults", "%s", res.msg)
			}
		})
	})
}

// onShard spreads the expensive sub-checks of the quick tier over the shards
// (every shard would otherwise start several cold staticcheck runs at once).
func onShard(mod, rem int) bool {
	return ev.Thorough() || ev.NShards() < mod || ev.Shard()%mod == rem
}

func e2eProp(t *testing.T, test string, scale float64, min int, gen func(rt *rapid.T) E2ECase) {
	env := e2eEnvOrSkip(t)
	if env == nil {
		return
	}
	violated := false
	over := localBudget("E2E", 30, 150)
	scaled(scale, min, func() {
		ev.Check(t, test, func(rt *rapid.T) {
			if violated || over() {
				return
			}
			c := gen(rt)
			rep := Replay{Kind: "e2e-" + c.Mode, E2E: &c}
			ev.Begin(test, "json", rep.bytes())
			res := env.eval(c)
			if res.infra != "" {
				ev.Infra("%s: %s", test, res.infra)
				rt.Skip(res.infra)
			}
			ev.Case(res.hash, res.nontrivial, res.classes...)
			if res.msg != "" {
				if c.Mode == "aged" && ev.IsKnown(sigE2EGone) && strings.Contains(res.msg, "no such file") {
					ev.KnownFinding(sigE2EGone, "")
					return
				}
				// timing dependent: reported directly, rapid cannot re-run it reliably
				violated = true
				if c.Mode == "kill" {
					c.Listing = res.artefact
					rep = Replay{Kind: "e2e-kill", E2E: &c}
				}
				ev.Violate(test, res.msg, "json", rep.bytes())
			}
		})
	})
}

func TestE2EKill(t *testing.T) {
	defer timed("TestE2EKill")()
	ev.Rule(rule)
	ev.Assume("the delay after which a running staticcheck is killed is not reproducible; the replay file archives the listing (names, sizes) of the cache directory the dead process left behind")
	if !onShard(2, 0) {
		return
	}
	e2eProp(t, "TestE2EKill", float64(ev.EnvInt("C05_KILL_PCT", 25, 5))/100, 1, func(rt *rapid.T) E2ECase {
		env, _ := e2eSetup()
		n := 19
		if env != nil && len(env.files) > 0 {
			n = len(env.files)
		}
		c := E2ECase{Mode: "kill", KillAtFiles: rapid.IntRange(0, n).Draw(rt, "kill_at_files")}
		if c.KillAtFiles == 0 {
			c.DelayPermille = rapid.IntRange(100, 600).Draw(rt, "delay_permille")
		} else {
			c.ExtraMs = rapid.SampledFrom([]int{0, 0, 1, 3, 10}).Draw(rt, "extra_ms")
		}
		return c
	})
}

func genStagger(rt *rapid.T) []int {
	n := rapid.IntRange(2, 4).Draw(rt, "nprocs")
	st := make([]int, n)
	for i := 1; i < n; i++ {
		st[i] = rapid.IntRange(0, 1500).Draw(rt, "stagger_ms")
	}
	return st
}

func TestE2EConcurrent(t *testing.T) {
	defer timed("TestE2EConcurrent")()
	ev.Rule(rule)
	if !onShard(4, 1) {
		return
	}
	e2eProp(t, "TestE2EConcurrent", float64(ev.EnvInt("C05_CONC_PCT", 25, 2))/100, 1, func(rt *rapid.T) E2ECase {
		return E2ECase{Mode: "conc", Stagger: genStagger(rt)}
	})
}

// TestE2EAgedTrim: every entry is older than the trim limit and a trimmer runs
// while staticcheck processes use the cache (the expected grey area).
func TestE2EAgedTrim(t *testing.T) {
	defer timed("TestE2EAgedTrim")()
	ev.Rule(rule)
	if !onShard(4, 3) {
		return
	}
	e2eProp(t, "TestE2EAgedTrim", float64(ev.EnvInt("C05_AGED_PCT", 25, 5))/100, 1, func(rt *rapid.T) E2ECase {
		return E2ECase{Mode: "aged", Stagger: genStagger(rt), TrimDelayMs: rapid.IntRange(0, 1200).Draw(rt, "trim_delay_ms")}
	})
}
