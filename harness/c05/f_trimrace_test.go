package c05

import (
	"bufio"
	"fmt"
	"os"
	"os/exec"
	"strings"
	"testing"
	"time"

	"honnef.co/go/tools/lintcmd/cache"
	"verif/harness/internal/ev"
)

// ---------------------------------------------------------------------------
// The two windows of the expected grey area, reproduced deterministically by
// pausing one process inside the window with strace's delay injection:
//
//	put: a writer stores content whose data file already exists but is old
//	     (copyFile returns without touching it); while it is inside
//	     putIndexEntry a Trim removes the old data file; the writer then hands
//	     out OutputFile(out) as runner.writeCacheReader does.
//	get: a trimmer has Stat'ed an old data file and is about to remove it; a
//	     reader's GetFile still finds the file and returns its path.

type TrimRaceCase struct {
	Shape string `json:"shape"` // put | get
	Size  int    `json:"size"`
}

// pickKeys finds key names whose files lie in sub-directories ordered as the
// scenario needs (Trim walks 00..ff).
func pickOrdered(n int, ok func(k string) bool) string {
	for i := 0; i < 100000; i++ {
		k := fmt.Sprintf("r%d", i)
		if ok(k) {
			return k
		}
	}
	return ""
}

func prefix(path string) string { return path[len(path)-2-64-3 : len(path)-2-64-1] }

func evalTrimRace(c TrimRaceCase) (res result, reproduced bool) {
	dir, err := newCacheDir()
	if err != nil {
		res.infra = err.Error()
		return
	}
	defer os.RemoveAll(dir)
	res.hash = ev.Hash("trimrace", c.Shape, itoa(c.Size))
	res.nontrivial = true
	res.classes = []string{"trimrace_" + c.Shape}
	const delayUS = 4000000
	switch c.Shape {
	case "put":
		k1, k2 := "old-action", "new-action"
		data := Content(k1, 0, c.Size)
		if err := putFull(dir, k1, data); err != nil {
			res.infra = err.Error()
			return
		}
		ageFile(indexPath(dir, k1), 6)
		ageFile(dataPath(dir, data), 6)
		cmd := exec.Command("strace", "-f", "-o", os.DevNull, "-e", "trace=ftruncate", "-e", fmt.Sprintf("inject=ftruncate:delay_enter=%d:when=1", delayUS),
			bin("putter"), "-dir", dir, "-key", k2, "-contentkey", k1, "-ver", "0", "-len", itoa(c.Size), "-readback")
		cmd.Env = append(os.Environ(), "GOMAXPROCS=1")
		var out strings.Builder
		cmd.Stdout = &out
		if err := cmd.Start(); err != nil {
			res.infra = err.Error()
			return
		}
		// the writer is inside putIndexEntry (after copyFile found the data file) once its index file exists
		inside := false
		for t0 := time.Now(); time.Since(t0) < 60*time.Second; time.Sleep(5 * time.Millisecond) {
			if _, err := os.Stat(indexPath(dir, k2)); err == nil {
				inside = true
				break
			}
		}
		if inside {
			cc, _ := cache.Open(dir)
			cc.Trim() // no trim.txt: scans, removes the files older than 5 days
		}
		cmd.Wait()
		if !inside {
			res.infra = "writer never reached putIndexEntry: " + out.String()
			return
		}
		o := out.String()
		switch {
		case strings.Contains(o, "READBACK ok"):
		case strings.Contains(o, "DONE ") && strings.Contains(o, "READBACK "):
			reproduced = true
			l, _ := lookup(dir, k2)
			res.msg = fmt.Sprintf("Put(%s) of a %d-byte content succeeded, but the path DiskCache.OutputFile returns for it (what runner.writeCacheReader hands to the runner) cannot be read back: %s"+
				"history: the content's data file existed and was 6 days old (last used under another action id); Put found it complete (copyFile returns without updating its mtime); while Put was in putIndexEntry, Trim of another process removed the data file as unused; "+
				"afterwards the new index entry points to a missing file (lookup of the new key: GetBytes hit=%v GetFile hit=%v)\nentry files: %s\n",
				k2, c.Size, o[strings.Index(o, "READBACK"):], l.BHit, l.FHit, listingString(entryFiles(listCache(dir))))
		default:
			res.infra = "unexpected writer output: " + o
		}
	case "get":
		// decoy data file < data file < index file in Trim's walk
		var key string
		var data, decoy []byte
		key = pickOrdered(0, func(k string) bool {
			d := Content(k, 0, c.Size)
			return prefix(dataPath(dir, d)) > "20" && prefix(dataPath(dir, d)) < prefix(indexPath(dir, k))
		})
		data = Content(key, 0, c.Size)
		dk := pickOrdered(0, func(k string) bool { return prefix(dataPath(dir, Content(k, 1, 50))) < "20" })
		decoy = Content(dk, 1, 50)
		if err := putFull(dir, key, data); err != nil {
			res.infra = err.Error()
			return
		}
		os.WriteFile(dataPath(dir, decoy), decoy, 0o666)
		for _, p := range []string{indexPath(dir, key), dataPath(dir, data), dataPath(dir, decoy)} {
			ageFile(p, 6)
		}
		cmd := exec.Command("strace", "-f", "-o", os.DevNull, "-e", "trace=unlinkat", "-e", fmt.Sprintf("inject=unlinkat:delay_enter=%d:when=2", delayUS),
			bin("cachestress"), "-dir", dir, "trim")
		cmd.Env = append(os.Environ(), "GOMAXPROCS=1")
		cmd.Stdin = strings.NewReader("go\n")
		outp, _ := cmd.StdoutPipe()
		if err := cmd.Start(); err != nil {
			res.infra = err.Error()
			return
		}
		rd := bufio.NewReader(outp)
		rd.ReadString('\n') // READY
		// the trimmer has passed the decoy once that is gone; it then Stats the
		// data file (old) and is held before removing it
		passed := false
		for t0 := time.Now(); time.Since(t0) < 60*time.Second; time.Sleep(2 * time.Millisecond) {
			if _, err := os.Stat(dataPath(dir, decoy)); os.IsNotExist(err) {
				passed = true
				break
			}
		}
		time.Sleep(500 * time.Millisecond)
		cc, _ := cache.Open(dir)
		file, _, gerr := cache.GetFile(cc, ID(key))
		rd.ReadString('\n')
		cmd.Wait()
		if !passed {
			res.infra = "trimmer never removed the decoy file"
			return
		}
		if gerr != nil {
			ev.Count("trimrace_get_window_missed", 1)
			return
		}
		got, rerr := os.ReadFile(file)
		if rerr != nil || string(got) != string(data) {
			reproduced = true
			res.msg = fmt.Sprintf("GetFile(%s) returned %s for a %d-byte entry, but reading that path afterwards gives: %v (%d bytes)\n"+
				"history: index and data file were 6 days old; a Trim in another process had already examined the data file's mtime; GetFile then refreshed the mtime and returned the path; Trim removed the file\nentry files: %s\n",
				key, file, c.Size, rerr, len(got), listingString(entryFiles(listCache(dir))))
		}
	default:
		res.infra = "unknown shape " + c.Shape
	}
	return
}

func trimRaceSig(shape string) string {
	if shape == "put" {
		return sigPutGone
	}
	return sigGetGone
}

// TestTrimRaceWindows is expected to find the grey area on the unchanged tree
// (known findings getfile-path-removed-by-concurrent-trim and
// put-outputfile-removed-by-concurrent-trim).
func TestTrimRaceWindows(t *testing.T) {
	defer timed("TestTrimRaceWindows")()
	ev.Rule(rule)
	if os.Getenv("VERIF_SECONDARY") != "" || !ev.Thorough() {
		return // quick tier: the three cases are part of the corpus (f1, f1b, f2)
	}
	if !straceUsable() {
		ev.Count("strace_unavailable_subcheck_skipped", 1)
		return
	}
	for _, c := range []TrimRaceCase{{"put", 100}, {"put", 0}, {"get", 100}} {
		c := c
		res, reproduced := evalTrimRace(c)
		if res.infra != "" {
			ev.Infra("TestTrimRaceWindows %+v: %s", c, res.infra)
			continue
		}
		ev.Case(res.hash, res.nontrivial, res.classes...)
		if reproduced {
			if sig := trimRaceSig(c.Shape); ev.IsKnown(sig) {
				ev.KnownFinding(sig, "")
				continue
			}
			rep := Replay{Kind: "trimrace", TrimRace: &c}
			ev.Violate("TestTrimRaceWindows", res.msg, "json", rep.bytes())
			t.Errorf("%s", res.msg)
		}
	}
}
