package c05

import (
	"bytes"
	"fmt"
	"os"
	"os/exec"
	"strings"
	"sync"
	"testing"
	"time"

	"honnef.co/go/tools/lintcmd/cache"
	"pgregory.net/rapid"
	"verif/harness/internal/ev"
)

// ---------------------------------------------------------------------------
// sub-check: several writers store the SAME content (under different action
// ids, as two staticcheck processes analysing the same package do) while a
// reader looks the entries up. The harness owns the schedule: every writer
// runs under strace with a drawn delay on each of its write system calls
// (copyFile writes 32 KiB at a time), and later writers start when the data
// file has reached a drawn fill level, i.e. while an earlier writer is in the
// middle of its copy. Oracle: every GetFile hit names a file whose bytes are
// exactly the stored content (the statement: a hit never serves other bytes).

type Writer struct {
	StartPct int `json:"start_pct"` // start once the data file holds this share of the content (0 = at once)
	DelayUS  int `json:"delay_us"`  // delay injected before every write system call
}

type WritersCase struct {
	Size    int      `json:"size"`
	Writers []Writer `json:"writers"`
}

func genWriters(t *rapid.T) WritersCase {
	c := WritersCase{Size: rapid.SampledFrom([]int{70000, 200000, 500000}).Draw(t, "size")}
	c.Writers = append(c.Writers, Writer{0, rapid.SampledFrom([]int{3000, 10000, 30000}).Draw(t, "delay0")})
	for n := rapid.IntRange(1, 2).Draw(t, "later"); n > 0; n-- {
		c.Writers = append(c.Writers, Writer{rapid.SampledFrom([]int{10, 30, 50, 70, 90}).Draw(t, "start"), rapid.SampledFrom([]int{1000, 10000, 40000, 100000}).Draw(t, "delay")})
	}
	return c
}

func evalWriters(c WritersCase) (res result) {
	dir, err := newCacheDir()
	if err != nil {
		res.infra = err.Error()
		return
	}
	defer os.RemoveAll(dir)
	data := Content("w", 0, c.Size)
	file := dataPath(dir, data)
	res.hash = ev.Hash("writers", fmt.Sprint(c))
	res.classes = []string{fmt.Sprintf("writers_%d", len(c.Writers))}
	var wg sync.WaitGroup
	var mu sync.Mutex
	var outs []string
	overlapped := false
	for i, w := range c.Writers {
		wg.Add(1)
		go func(i int, w Writer) {
			defer wg.Done()
			if w.StartPct > 0 {
				want := int64(c.Size) * int64(w.StartPct) / 100
				for t0 := time.Now(); time.Since(t0) < 30*time.Second; time.Sleep(time.Millisecond) {
					if st, err := os.Stat(file); err == nil && st.Size() >= want {
						if st.Size() < int64(c.Size) {
							mu.Lock()
							overlapped = true
							mu.Unlock()
						}
						break
					}
				}
			}
			cmd := exec.Command("strace", "-f", "-o", os.DevNull, "-e", "trace=write", "-e", fmt.Sprintf("inject=write:delay_enter=%d:when=1+", w.DelayUS),
				bin("putter"), "-dir", dir, "-key", fmt.Sprintf("w%d", i), "-contentkey", "w", "-ver", "0", "-len", itoa(c.Size))
			cmd.Env = append(os.Environ(), "GOMAXPROCS=1")
			var out strings.Builder
			cmd.Stdout = &out
			cmd.Run()
			mu.Lock()
			outs = append(outs, fmt.Sprintf("writer %d: %s", i, strings.TrimSpace(out.String())))
			mu.Unlock()
		}(i, w)
	}
	done := make(chan struct{})
	go func() { wg.Wait(); close(done) }()
	cc, err := cache.Open(dir)
	if err != nil {
		res.infra = err.Error()
		<-done
		return
	}
	hits := 0
	check := func() {
		for i := range c.Writers {
			if res.msg != "" {
				return
			}
			key := fmt.Sprintf("w%d", i)
			path, e, err := cache.GetFile(cc, ID(key))
			if err != nil {
				continue
			}
			got, rerr := os.ReadFile(path)
			hits++
			if rerr != nil || !bytes.Equal(got, data) {
				first, wrong := -1, 0
				for k := 0; k < len(got) && k < len(data); k++ {
					if got[k] != data[k] {
						wrong++
						if first < 0 {
							first = k
						}
					}
				}
				res.msg = fmt.Sprintf("GetFile(%s) reported a hit (entry size %d) but the file it names does not hold the stored content: read error %v, %d bytes read of %d, %d wrong bytes, first at offset %d\n"+
					"history: %d writers stored the same %d-byte content under different action ids; writer i>0 started when the data file held start_pct%% of the content, every write system call of writer i was delayed by delay_us: %+v\n",
					key, e.Size, rerr, len(got), len(data), wrong, first, len(c.Writers), c.Size, c.Writers)
			}
		}
	}
loop:
	for {
		select {
		case <-done:
			break loop
		default:
			check()
			time.Sleep(2 * time.Millisecond)
		}
	}
	check()
	for _, o := range outs {
		if !strings.Contains(o, "DONE ") {
			res.infra = "a writer did not finish: " + strings.Join(outs, "; ")
			return
		}
	}
	if hits == 0 {
		res.infra = "no hit at all: " + strings.Join(outs, "; ")
		return
	}
	res.nontrivial = overlapped
	if overlapped {
		res.classes = append(res.classes, "writers_later_writer_started_mid_copy")
	}
	return
}

func TestConcurrentWriters(t *testing.T) {
	defer timed("TestConcurrentWriters")()
	ev.Rule(rule)
	if !straceUsable() {
		ev.Count("strace_unavailable_subcheck_skipped", 1)
		return
	}
	over := localBudget("WRITERS", 40, 300)
	ev.Check(t, "TestConcurrentWriters", func(rt *rapid.T) {
		if over() {
			return
		}
		c := genWriters(rt)
		rep := Replay{Kind: "writers", Writers: &c}
		ev.Begin("TestConcurrentWriters", "json", rep.bytes())
		res := evalWriters(c)
		if res.infra != "" {
			ev.Infra("TestConcurrentWriters: %s", res.infra)
			rt.Skip(res.infra)
		}
		ev.Case(res.hash, res.nontrivial, res.classes...)
		if res.msg != "" {
			ev.Failf(rt, "TestConcurrentWriters", "%s", res.msg)
		}
	})
}
