package c05

import (
	"bytes"
	"encoding/json"
	"fmt"
	"os"
	"sort"
	"strings"
	"testing"

	"honnef.co/go/tools/lintcmd/cache"
	"verif/harness/internal/ev"
)

// ---------------------------------------------------------------------------
// sub-check 2: truncation and deletion of files of a populated cache

type popEntry struct {
	key  string
	data []byte
}

// the standard population: sizes 0, 1, 100, 4096, 70000 and two keys sharing one data file
func stdEntries() []popEntry {
	return []popEntry{
		{"z", Content("z", 0, 0)},
		{"o", Content("o", 0, 1)},
		{"h", Content("h", 0, 100)},
		{"g", Content("h", 0, 100)},
		{"p", Content("p", 0, 4096)},
		{"b", Content("b", 0, 70000)},
	}
}

type pop struct {
	dir     string
	entries []popEntry
	files   map[string]string // logical name ("a:<key>", "d:<key>") -> path
	sizes   map[string]int    // logical name -> full size
	order   []string          // logical names, sorted
	base    string            // listing of the intact cache
	known   map[string]int
}

func newPop() (*pop, error) {
	dir, err := newCacheDir()
	if err != nil {
		return nil, err
	}
	p := &pop{dir: dir, entries: stdEntries(), files: map[string]string{}, sizes: map[string]int{}}
	seen := map[string]bool{}
	var all [][]byte
	for _, e := range p.entries {
		trackDir(dir, []string{e.key}, e.data)
		if err := putFull(dir, e.key, e.data); err != nil {
			os.RemoveAll(dir)
			return nil, err
		}
		p.files["a:"+e.key] = indexPath(dir, e.key)
		p.sizes["a:"+e.key] = entrySize
		dp := dataPath(dir, e.data)
		if !seen[dp] {
			seen[dp] = true
			p.files["d:"+e.key] = dp
			p.sizes["d:"+e.key] = len(e.data)
		}
		all = append(all, e.data)
	}
	for n := range p.files {
		p.order = append(p.order, n)
	}
	sort.Strings(p.order)
	p.base = listingString(entryFiles(listCache(dir)))
	p.known = knownSizes(all...)
	return p, nil
}

type Fault struct {
	Op   string `json:"op"`   // trunc | remove
	File string `json:"file"` // a:<key> index file of key, d:<key> data file holding key's content
	Len  int    `json:"len"`  // new length for trunc
}

type FaultCase struct {
	Faults []Fault `json:"faults"`
}

func (p *pop) affected(f Fault) []string {
	var keys []string
	kind, key := f.File[:1], f.File[2:]
	for _, e := range p.entries {
		if kind == "a" && e.key == key {
			keys = append(keys, e.key)
		}
		if kind == "d" && dataPath(p.dir, e.data) == p.files[f.File] {
			keys = append(keys, e.key)
		}
	}
	return keys
}

func (p *pop) evalFault(fc FaultCase) (res result) {
	touched := map[string]bool{}
	kinds := map[string]bool{}
	var hashParts []string
	for _, f := range fc.Faults {
		path, ok := p.files[f.File]
		if !ok {
			res.infra = "unknown logical file " + f.File
			return
		}
		var err error
		switch f.Op {
		case "trunc":
			if f.Len >= p.sizes[f.File] {
				continue // not a fault
			}
			err = os.Truncate(path, int64(f.Len))
			hashParts = append(hashParts, "trunc", f.File, offClass(f.Len, p.sizes[f.File]))
		case "remove":
			err = os.Remove(path)
			hashParts = append(hashParts, "remove", f.File)
		default:
			err = fmt.Errorf("unknown fault op %q", f.Op)
		}
		if err != nil && !os.IsNotExist(err) {
			res.infra = "applying fault: " + err.Error()
			return
		}
		kinds[f.Op+"_"+f.File[:1]] = true
		for _, k := range p.affected(f) {
			touched[k] = true
		}
	}
	dmg := scanDamage(p.dir, p.known)
	state := listingString(entryFiles(listCache(p.dir)))
	c, err := cache.Open(p.dir)
	if err != nil {
		res.infra = err.Error()
		return
	}
	var sb strings.Builder
	hits := 0
	for _, e := range p.entries {
		var must [][]byte
		if !touched[e.key] {
			must = [][]byte{e.data}
		}
		l := lookupWith(c, e.key)
		if l.BHit || l.FHit {
			if touched[e.key] {
				hits++
			}
		}
		sb.WriteString(verdict(l, e.key, [][]byte{e.data}, must))
	}
	if sb.Len() > 0 {
		b, _ := json.Marshal(fc.Faults)
		res.msg = fmt.Sprintf("faults %s on the standard 6-entry cache (keys z:0 o:1 h:100 g:=h p:4096 b:70000 bytes)\n%sentry files at lookup: %s\n", b, sb.String(), state)
	}
	// heal: store everything again, everything must be served, the directory is as before
	for _, e := range p.entries {
		if _, _, err := c.Put(ID(e.key), bytes.NewReader(e.data)); err != nil {
			res.msg += fmt.Sprintf("re-Put of key %s after the faults failed: %v\n", e.key, err)
		}
	}
	c, _ = cache.Open(p.dir)
	for _, e := range p.entries {
		if m := verdict(lookupWith(c, e.key), e.key, [][]byte{e.data}, [][]byte{e.data}); m != "" {
			res.msg += "after re-Put of all keys: " + m
		}
	}
	if now := listingString(entryFiles(listCache(p.dir))); now != p.base {
		res.msg += fmt.Sprintf("after re-Put of all keys the directory differs from the intact one:\n got  %s\n want %s\n", now, p.base)
	}
	res.nontrivial = dmg.any()
	res.hash = ev.Hash(append([]string{"fault"}, hashParts...)...)
	res.classes = append(res.classes, "fault")
	for k := range kinds {
		res.classes = append(res.classes, "fault_"+k)
	}
	if hits > 0 {
		res.classes = append(res.classes, "fault_touched_key_still_hit")
	}
	res.classes = append(res.classes, damageClasses(dmg)...)
	return
}

func (p *pop) faultCases() []FaultCase {
	var cs []FaultCase
	// every truncation length of every index file
	for _, n := range p.order {
		if n[0] == 'a' {
			for l := 0; l < entrySize; l++ {
				cs = append(cs, FaultCase{[]Fault{{"trunc", n, l}}})
			}
		}
	}
	// data files: every length up to 100 bytes, grid + boundaries above
	for _, n := range p.order {
		if n[0] != 'd' {
			continue
		}
		size := p.sizes[n]
		lens := map[int]bool{}
		if size <= 100 {
			for l := 0; l < size; l++ {
				lens[l] = true
			}
		} else {
			for _, l := range []int{0, 1, 2, size / 2, size - 2, size - 1, 511, 512, 513, 4095, 4096, 4097, 32767, 32768, 32769, 65535, 65536, 65537} {
				if l < size {
					lens[l] = true
				}
			}
			step := 1009
			if ev.Thorough() {
				step = 97
			}
			for l := 3; l < size; l += step {
				lens[l] = true
			}
		}
		var ls []int
		for l := range lens {
			ls = append(ls, l)
		}
		sort.Ints(ls)
		for _, l := range ls {
			cs = append(cs, FaultCase{[]Fault{{"trunc", n, l}}})
		}
	}
	// every non-empty subset of removed files
	for mask := 1; mask < 1<<len(p.order); mask++ {
		var fs []Fault
		for i, n := range p.order {
			if mask&(1<<i) != 0 {
				fs = append(fs, Fault{"remove", n, 0})
			}
		}
		cs = append(cs, FaultCase{fs})
	}
	// index x data pairs for key h (shared data file) and b
	for _, key := range []string{"h", "b"} {
		size := p.sizes["d:"+key]
		for _, la := range []int{-1, 0, 1, 87, 174} {
			for _, ld := range []int{-1, 0, 1, size / 2, size - 1} {
				var fs []Fault
				if la < 0 {
					fs = append(fs, Fault{"remove", "a:" + key, 0})
				} else {
					fs = append(fs, Fault{"trunc", "a:" + key, la})
				}
				if ld < 0 {
					fs = append(fs, Fault{"remove", "d:" + key, 0})
				} else {
					fs = append(fs, Fault{"trunc", "d:" + key, ld})
				}
				cs = append(cs, FaultCase{fs})
			}
		}
	}
	return cs
}

func TestTruncDelete(t *testing.T) {
	defer timed("TestTruncDelete")()
	ev.Rule(rule)
	p, err := newPop()
	if err != nil {
		ev.Infra("populate: %v", err)
		return
	}
	defer os.RemoveAll(p.dir)
	cs := p.faultCases()
	ev.Extra("truncdelete_states_enumerated", len(cs))
	runEnumerated(t, "TestTruncDelete", len(cs), func(i int) (result, Replay) {
		c := cs[i]
		return p.evalFault(c), Replay{Kind: "fault", Fault: &c}
	})
}
