package c05

import (
	"bytes"
	"encoding/json"
	"fmt"
	"os"
	"path/filepath"
	"sort"
	"strings"
	"testing"
	"time"

	"honnef.co/go/tools/lintcmd/cache"
	"pgregory.net/rapid"
	"verif/harness/internal/ev"
)

// ---------------------------------------------------------------------------
// sub-check 2: truncation and deletion of files of a populated cache

type popEntry struct {
	key  string
	data []byte
}

// the standard population: sizes 0, 1, 100, 4096, 70000 and two keys sharing one data file
func stdEntries() []popEntry {
	return []popEntry{
		{"z", Content("z", 0, 0)},
		{"o", Content("o", 0, 1)},
		{"h", Content("h", 0, 100)},
		{"g", Content("h", 0, 100)},
		{"p", Content("p", 0, 4096)},
		{"b", Content("b", 0, 70000)},
	}
}

type pop struct {
	dir     string
	entries []popEntry
	files   map[string]string // logical name ("a:<key>", "d:<key>") -> path
	sizes   map[string]int    // logical name -> full size
	order   []string          // logical names, sorted
	base    string            // listing of the intact cache
	known   map[string]int
}

func newPop() (*pop, error) {
	dir, err := newCacheDir()
	if err != nil {
		return nil, err
	}
	p := &pop{dir: dir, entries: stdEntries(), files: map[string]string{}, sizes: map[string]int{}}
	seen := map[string]bool{}
	var all [][]byte
	for _, e := range p.entries {
		trackDir(dir, []string{e.key}, e.data)
		if err := putFull(dir, e.key, e.data); err != nil {
			os.RemoveAll(dir)
			return nil, err
		}
		p.files["a:"+e.key] = indexPath(dir, e.key)
		p.sizes["a:"+e.key] = entrySize
		dp := dataPath(dir, e.data)
		if !seen[dp] {
			seen[dp] = true
			p.files["d:"+e.key] = dp
			p.sizes["d:"+e.key] = len(e.data)
		}
		all = append(all, e.data)
	}
	for n := range p.files {
		p.order = append(p.order, n)
	}
	sort.Strings(p.order)
	p.base = listingString(entryFiles(listCache(dir)))
	p.known = knownSizes(all...)
	return p, nil
}

type Fault struct {
	Op   string `json:"op"`   // trunc | remove
	File string `json:"file"` // a:<key> index file of key, d:<key> data file holding key's content
	Len  int    `json:"len"`  // new length for trunc
}

type FaultCase struct {
	Faults []Fault `json:"faults"`
}

func (p *pop) affected(f Fault) []string {
	var keys []string
	kind, key := f.File[:1], f.File[2:]
	for _, e := range p.entries {
		if kind == "a" && e.key == key {
			keys = append(keys, e.key)
		}
		if kind == "d" && dataPath(p.dir, e.data) == p.files[f.File] {
			keys = append(keys, e.key)
		}
	}
	return keys
}

func (p *pop) evalFault(fc FaultCase) (res result) {
	touched := map[string]bool{}
	kinds := map[string]bool{}
	var hashParts []string
	for _, f := range fc.Faults {
		path, ok := p.files[f.File]
		if !ok {
			res.infra = "unknown logical file " + f.File
			return
		}
		var err error
		switch f.Op {
		case "trunc":
			if f.Len >= p.sizes[f.File] {
				continue // not a fault
			}
			err = os.Truncate(path, int64(f.Len))
			hashParts = append(hashParts, "trunc", f.File, offClass(f.Len, p.sizes[f.File]))
		case "remove":
			err = os.Remove(path)
			hashParts = append(hashParts, "remove", f.File)
		default:
			err = fmt.Errorf("unknown fault op %q", f.Op)
		}
		if err != nil && !os.IsNotExist(err) {
			res.infra = "applying fault: " + err.Error()
			return
		}
		kinds[f.Op+"_"+f.File[:1]] = true
		for _, k := range p.affected(f) {
			touched[k] = true
		}
	}
	dmg := scanDamage(p.dir, p.known)
	state := listingString(entryFiles(listCache(p.dir)))
	c, err := cache.Open(p.dir)
	if err != nil {
		res.infra = err.Error()
		return
	}
	var sb strings.Builder
	hits := 0
	for _, e := range p.entries {
		var must [][]byte
		if !touched[e.key] {
			must = [][]byte{e.data}
		}
		l := lookupWith(c, e.key)
		if l.BHit || l.FHit {
			if touched[e.key] {
				hits++
			}
		}
		sb.WriteString(verdict(l, e.key, [][]byte{e.data}, must))
	}
	if sb.Len() > 0 {
		b, _ := json.Marshal(fc.Faults)
		res.msg = fmt.Sprintf("faults %s on the standard 6-entry cache (keys z:0 o:1 h:100 g:=h p:4096 b:70000 bytes)\n%sentry files at lookup: %s\n", b, sb.String(), state)
	}
	// heal: store everything again, everything must be served, the directory is as before
	for _, e := range p.entries {
		if _, _, err := c.Put(ID(e.key), bytes.NewReader(e.data)); err != nil {
			res.msg += fmt.Sprintf("re-Put of key %s after the faults failed: %v\n", e.key, err)
		}
	}
	c, _ = cache.Open(p.dir)
	for _, e := range p.entries {
		if m := verdict(lookupWith(c, e.key), e.key, [][]byte{e.data}, [][]byte{e.data}); m != "" {
			res.msg += "after re-Put of all keys: " + m
		}
	}
	if now := listingString(entryFiles(listCache(p.dir))); now != p.base {
		res.msg += fmt.Sprintf("after re-Put of all keys the directory differs from the intact one:\n got  %s\n want %s\n", now, p.base)
	}
	res.nontrivial = dmg.any()
	res.hash = ev.Hash(append([]string{"fault"}, hashParts...)...)
	res.classes = append(res.classes, "fault")
	for k := range kinds {
		res.classes = append(res.classes, "fault_"+k)
	}
	if hits > 0 {
		res.classes = append(res.classes, "fault_touched_key_still_hit")
	}
	res.classes = append(res.classes, damageClasses(dmg)...)
	return
}

func (p *pop) faultCases() []FaultCase {
	var cs []FaultCase
	// every truncation length of every index file
	for _, n := range p.order {
		if n[0] == 'a' {
			for l := 0; l < entrySize; l++ {
				cs = append(cs, FaultCase{[]Fault{{"trunc", n, l}}})
			}
		}
	}
	// data files: every length up to 100 bytes, grid + boundaries above
	for _, n := range p.order {
		if n[0] != 'd' {
			continue
		}
		size := p.sizes[n]
		lens := map[int]bool{}
		if size <= 100 {
			for l := 0; l < size; l++ {
				lens[l] = true
			}
		} else {
			for _, l := range []int{0, 1, 2, size / 2, size - 2, size - 1, 511, 512, 513, 4095, 4096, 4097, 32767, 32768, 32769, 65535, 65536, 65537} {
				if l < size {
					lens[l] = true
				}
			}
			step := 1009
			if ev.Thorough() {
				step = 97
			}
			for l := 3; l < size; l += step {
				lens[l] = true
			}
		}
		var ls []int
		for l := range lens {
			ls = append(ls, l)
		}
		sort.Ints(ls)
		for _, l := range ls {
			cs = append(cs, FaultCase{[]Fault{{"trunc", n, l}}})
		}
	}
	// every non-empty subset of removed files
	for mask := 1; mask < 1<<len(p.order); mask++ {
		var fs []Fault
		for i, n := range p.order {
			if mask&(1<<i) != 0 {
				fs = append(fs, Fault{"remove", n, 0})
			}
		}
		cs = append(cs, FaultCase{fs})
	}
	// index x data pairs for key h (shared data file) and b
	for _, key := range []string{"h", "b"} {
		size := p.sizes["d:"+key]
		for _, la := range []int{-1, 0, 1, 87, 174} {
			for _, ld := range []int{-1, 0, 1, size / 2, size - 1} {
				var fs []Fault
				if la < 0 {
					fs = append(fs, Fault{"remove", "a:" + key, 0})
				} else {
					fs = append(fs, Fault{"trunc", "a:" + key, la})
				}
				if ld < 0 {
					fs = append(fs, Fault{"remove", "d:" + key, 0})
				} else {
					fs = append(fs, Fault{"trunc", "d:" + key, ld})
				}
				cs = append(cs, FaultCase{fs})
			}
		}
	}
	return cs
}

func TestTruncDelete(t *testing.T) {
	defer timed("TestTruncDelete")()
	ev.Rule(rule)
	p, err := newPop()
	if err != nil {
		ev.Infra("populate: %v", err)
		return
	}
	defer os.RemoveAll(p.dir)
	cs := p.faultCases()
	ev.Extra("truncdelete_states_enumerated", len(cs))
	runEnumerated(t, "TestTruncDelete", len(cs), func(i int) (result, Replay) {
		c := cs[i]
		return p.evalFault(c), Replay{Kind: "fault", Fault: &c}
	})
}

// ---------------------------------------------------------------------------
// sub-check 2b: generated sequences of stores, crashes and file faults

type Step struct {
	Op    string `json:"op"` // put | crash | trunc | remove | agetrim
	Key   string `json:"key,omitempty"`
	Ver   int    `json:"ver,omitempty"`
	Size  int    `json:"size,omitempty"`
	K     int    `json:"k,omitempty"`     // crash: bytes before the kill (clamped to size-1)
	Chunk int    `json:"chunk,omitempty"` // crash
	File  int    `json:"file,omitempty"`  // trunc/remove/agetrim: index into the sorted list of entry files (mod length)
	Frac  int    `json:"frac,omitempty"`  // trunc: new length = size*frac/1000
}

type SeqCase struct {
	Steps []Step `json:"steps"`
}

var seqKeys = []string{"a", "b", "c"}

func genSeq(t *rapid.T) SeqCase {
	n := rapid.IntRange(1, 8).Draw(t, "nsteps")
	var sc SeqCase
	for i := 0; i < n; i++ {
		var s Step
		s.Op = rapid.SampledFrom([]string{"put", "put", "put", "crash", "crash", "crash", "trunc", "trunc", "trunc", "remove", "remove", "agetrim"}).Draw(t, "op")
		switch s.Op {
		case "put", "crash":
			s.Key = rapid.SampledFrom(seqKeys).Draw(t, "key")
			s.Ver = rapid.IntRange(0, 1).Draw(t, "ver")
			s.Size = rapid.SampledFrom([]int{0, 1, 2, 100, 5000, 70000}).Draw(t, "size")
			if s.Op == "crash" {
				s.K = rapid.IntRange(0, 70000).Draw(t, "k")
				s.Chunk = rapid.SampledFrom([]int{0, 1, 7, 4096}).Draw(t, "chunk")
				if s.Chunk == 1 && s.Size > 5000 {
					s.Chunk = 7
				}
			}
		default:
			s.File = rapid.IntRange(0, 11).Draw(t, "file")
			if s.Op == "trunc" {
				s.Frac = rapid.SampledFrom([]int{0, 1, 250, 500, 750, 990, 999}).Draw(t, "frac")
			}
		}
		sc.Steps = append(sc.Steps, s)
	}
	return sc
}

func evalSeq(sc SeqCase) (res result) {
	dir, err := newCacheDir()
	if err != nil {
		res.infra = err.Error()
		return
	}
	defer os.RemoveAll(dir)
	return evalSeqIn(dir, sc)
}

func evalSeqIn(dir string, sc SeqCase) (res result) {
	for _, s := range sc.Steps {
		if s.Op == "put" || s.Op == "crash" {
			trackDir(dir, []string{s.Key}, Content(s.Key, s.Ver, s.Size))
		}
	}
	acceptable := map[string][][]byte{}
	intact := map[string][]byte{} // key -> content of an entry no fault has touched since it was stored
	known := map[string]int{}
	fileOwner := func(path string) []string { // keys whose intact entry uses path
		var ks []string
		for k, d := range intact {
			if indexPath(dir, k) == path || dataPath(dir, d) == path {
				ks = append(ks, k)
			}
		}
		return ks
	}
	var hashParts []string
	var sb strings.Builder
	anyDamage := false
	for i, s := range sc.Steps {
		desc := fmt.Sprintf("step %d %+v", i, s)
		switch s.Op {
		case "put", "crash":
			data := Content(s.Key, s.Ver, s.Size)
			if !member(data, acceptable[s.Key]) {
				acceptable[s.Key] = append(acceptable[s.Key], data)
			}
			known[fmt.Sprintf("%x", OutID(data))] = len(data)
			if s.Op == "put" {
				if err := putFull(dir, s.Key, data); err != nil {
					fmt.Fprintf(&sb, "%s: Put failed: %v\n", desc, err)
				}
				intact[s.Key] = data
				hashParts = append(hashParts, "put", itoa(s.Size))
			} else {
				k := s.K
				if k >= s.Size {
					k = s.Size - 1
				}
				if k < 0 {
					k = 0
				}
				r, err := runProc("", []string{"GOMAXPROCS=1"}, bin("putter"), "-dir", dir, "-key", s.Key, "-ver", itoa(s.Ver), "-len", itoa(s.Size),
					"-chunk", itoa(s.Chunk), "-killat", itoa(k))
				if err != nil {
					res.infra = "putter: " + err.Error()
					return
				}
				switch {
				case r.Killed:
					// the index entry and data file of an intact entry are not
					// touched by a store that dies in its copy pass
				case r.RC == 0 && strings.HasPrefix(r.Out, "DONE "):
					intact[s.Key] = data
				default:
					fmt.Fprintf(&sb, "%s: Put failed without being killed: rc=%d %s%s\n", desc, r.RC, r.Out, r.Err)
				}
				hashParts = append(hashParts, "crash", itoa(s.Size), offClass(k, s.Size))
			}
		case "trunc", "remove", "agetrim":
			fs := entryFiles(listCache(dir))
			if len(fs) == 0 {
				hashParts = append(hashParts, s.Op, "nofile")
				break
			}
			f := fs[s.File%len(fs)]
			path := filepath.Join(dir, f.Rel)
			kind := f.Rel[len(f.Rel)-1:]
			for _, k := range fileOwner(path) {
				delete(intact, k)
			}
			switch s.Op {
			case "trunc":
				l := int(f.Size) * s.Frac / 1000
				if int64(l) == f.Size { // empty file
					break
				}
				if err := os.Truncate(path, int64(l)); err != nil {
					res.infra = err.Error()
					return
				}
				hashParts = append(hashParts, "trunc", kind, offClass(l, int(f.Size)))
			case "remove":
				os.Remove(path)
				hashParts = append(hashParts, "remove", kind)
			case "agetrim":
				old := time.Now().Add(-6 * 24 * time.Hour)
				os.Chtimes(path, old, old)
				os.Remove(filepath.Join(dir, "trim.txt"))
				c, err := cache.Open(dir)
				if err != nil {
					res.infra = err.Error()
					return
				}
				c.Trim()
				if _, err := os.Stat(path); err == nil {
					fmt.Fprintf(&sb, "%s: Trim (no trim.txt) kept %s although its mtime is 6 days old\n", desc, f.Rel)
				}
				if now := entryFiles(listCache(dir)); len(now) != len(fs)-1 {
					fmt.Fprintf(&sb, "%s: Trim removed more than the one aged file: before %s after %s\n", desc, listingString(fs), listingString(now))
				}
				hashParts = append(hashParts, "agetrim", kind)
			}
		}
		dmg := scanDamage(dir, known)
		if dmg.any() {
			anyDamage = true
			for _, c := range damageClasses(dmg) {
				ev.Count("seq_"+c, 1)
			}
		}
		state := listingString(entryFiles(listCache(dir)))
		c, err := cache.Open(dir)
		if err != nil {
			res.infra = err.Error()
			return
		}
		for _, k := range seqKeys {
			var must [][]byte
			if d, ok := intact[k]; ok {
				must = [][]byte{d}
			}
			if m := verdict(lookupWith(c, k), k, acceptable[k], must); m != "" {
				fmt.Fprintf(&sb, "after %s: %sentry files: %s\n", desc, m, state)
			}
		}
		if sb.Len() > 0 {
			break
		}
	}
	res.msg = sb.String()
	res.nontrivial = anyDamage
	res.hash = ev.Hash(append([]string{"seq"}, hashParts...)...)
	res.classes = []string{"seq"}
	return
}

func TestFaultSequences(t *testing.T) {
	defer timed("TestFaultSequences")()
	ev.Rule(rule)
	dir, err := newCacheDir()
	if err != nil {
		ev.Infra("%v", err)
		return
	}
	defer os.RemoveAll(dir)
	scaled(float64(ev.EnvInt("C05_SEQ_SCALE", 5, 6)), 4, func() {
		over := localBudget("SEQ", 15, 300)
		ev.Check(t, "TestFaultSequences", func(rt *rapid.T) {
			if over() {
				return
			}
			sc := genSeq(rt)
			rep := Replay{Kind: "seq", Seq: &sc}
			ev.Begin("TestFaultSequences", "json", rep.bytes())
			resetCacheDir(dir)
			res := evalSeqIn(dir, sc)
			if res.infra != "" {
				ev.Infra("TestFaultSequences: %s", res.infra)
				rt.Skip(res.infra)
			}
			ev.Case(res.hash, res.nontrivial, res.classes...)
			if res.msg != "" {
				ev.Failf(rt, "TestFaultSequences", "%s", res.msg)
			}
		})
	})
}

var _ = bytes.Equal
