package c05

import (
	"bufio"
	"bytes"
	"fmt"
	"io"
	"os"
	"os/exec"
	"path/filepath"
	"strconv"
	"strings"
	"testing"
	"time"

	"pgregory.net/rapid"
	"verif/harness/internal/ev"
)

// ---------------------------------------------------------------------------
// sub-check 3: several processes store, look up and trim one directory

// Signatures of the expected grey area (DESIGN.md C05 limits): a trimmer removes
// an old data file between a process obtaining its path from the cache and
// reading it.
const (
	// GetFile returned the path (window: the trimmer's Stat..Remove of that file)
	sigGetGone = "getfile-path-removed-by-concurrent-trim"
	// Put found the old data file already present (copyFile returns without
	// touching its mtime) and OutputFile, as called by runner.writeCacheReader,
	// names a file the trimmer removed meanwhile (window: all of putIndexEntry)
	sigPutGone = "put-outputfile-removed-by-concurrent-trim"
	// staticcheck itself reported different results in that situation
	sigE2EGone = "e2e-results-differ-under-concurrent-trim-of-aged-cache"
)

type PreEntry struct {
	Key      string `json:"key"`
	Ver      int    `json:"ver"`
	Size     int    `json:"size"`
	IdxDays  int    `json:"idx_days"`  // age of the index file in days (0 = now)
	DataDays int    `json:"data_days"` // age of the data file
	Damage   string `json:"damage"`    // "" | noindex | nodata | halfdata | halfindex
}

type StressCase struct {
	Aged    bool       `json:"aged"`
	TrimTxt string     `json:"trim_txt"` // absent | old | fresh
	Pre     []PreEntry `json:"pre"`
	Procs   [][]string `json:"procs"`
}

var (
	stableKeys   = []string{"s0", "s1"}
	stableSize   = map[string]int{"s0": 100, "s1": 40000}
	volatileKeys = []string{"a", "b", "c"}
)

func isStable(k string) bool { _, ok := stableSize[k]; return ok }

func genStress(t *rapid.T, aged bool) StressCase {
	sc := StressCase{Aged: aged}
	ages := []int{0, 4}
	damages := []string{""}
	if aged {
		ages = []int{0, 4, 6, 6}
		damages = []string{"", "", "", "noindex", "nodata", "halfdata", "halfindex"}
		sc.TrimTxt = rapid.SampledFrom([]string{"absent", "absent", "old", "fresh"}).Draw(t, "trimtxt")
	} else {
		sc.TrimTxt = rapid.SampledFrom([]string{"absent", "old", "fresh"}).Draw(t, "trimtxt")
	}
	if aged && rapid.IntRange(0, 7).Draw(t, "hammer") == 0 {
		return genHammer(t, sc)
	}
	for _, k := range stableKeys {
		sc.Pre = append(sc.Pre, PreEntry{Key: k, Ver: 0, Size: stableSize[k],
			IdxDays:  rapid.SampledFrom(ages).Draw(t, "idxage"),
			DataDays: rapid.SampledFrom(ages).Draw(t, "dataage"),
			Damage:   rapid.SampledFrom(damages).Draw(t, "damage")})
	}
	for _, k := range volatileKeys {
		if rapid.Bool().Draw(t, "prevol") {
			sc.Pre = append(sc.Pre, PreEntry{Key: k, Ver: 0, Size: rapid.SampledFrom([]int{40, 1000, 40000}).Draw(t, "size"),
				IdxDays:  rapid.SampledFrom(ages).Draw(t, "idxage"),
				DataDays: rapid.SampledFrom(ages).Draw(t, "dataage"),
				Damage:   rapid.SampledFrom(damages).Draw(t, "damage")})
		}
	}
	np := rapid.IntRange(2, 8).Draw(t, "nprocs")
	for p := 0; p < np; p++ {
		n := rapid.IntRange(1, 10).Draw(t, "nops")
		var ops []string
		for j := 0; j < n; j++ {
			kind := rapid.SampledFrom([]string{"put", "put", "put", "putf", "getb", "getb", "getb", "getf", "getf", "getf", "trim", "close"}).Draw(t, "op")
			switch kind {
			case "trim", "close":
				ops = append(ops, kind)
			case "put", "putf":
				k := rapid.SampledFrom([]string{"s0", "s1", "a", "a", "b", "c"}).Draw(t, "key")
				if isStable(k) {
					ops = append(ops, fmt.Sprintf("%s:%s:0:%d", kind, k, stableSize[k]))
				} else {
					size := rapid.SampledFrom([]int{40, 41, 1000, 40000}).Draw(t, "size")
					ops = append(ops, fmt.Sprintf("%s:%s:%d:%d", kind, k, 1+p*100+j, size))
				}
			default:
				k := rapid.SampledFrom([]string{"s0", "s1", "a", "a", "b", "c"}).Draw(t, "key")
				ops = append(ops, kind+":"+k)
			}
		}
		sc.Procs = append(sc.Procs, ops)
	}
	return sc
}

// genHammer: many aged entries, one trimmer, readers and re-writers of the
// same contents that read the paths they are given — the schedule shape that
// can expose the window between obtaining a path and opening it.
func genHammer(t *rapid.T, sc StressCase) StressCase {
	sc.TrimTxt = "absent"
	nk := rapid.IntRange(8, 48).Draw(t, "nkeys")
	var keys []string
	for i := 0; i < nk; i++ {
		k := fmt.Sprintf("h%d", i)
		keys = append(keys, k)
		dmg := ""
		if rapid.IntRange(0, 3).Draw(t, "noindex") == 0 {
			dmg = "noindex"
		}
		sc.Pre = append(sc.Pre, PreEntry{Key: k, Ver: 0, Size: 64, IdxDays: 6, DataDays: 6, Damage: dmg})
	}
	np := rapid.IntRange(3, 8).Draw(t, "nprocs")
	sc.Procs = append(sc.Procs, []string{"trim"})
	for p := 1; p < np; p++ {
		kind := rapid.SampledFrom([]string{"getf", "getf", "putf", "getb"}).Draw(t, "kind")
		rot := rapid.IntRange(0, nk-1).Draw(t, "rot")
		var ops []string
		for i := 0; i < nk; i++ {
			k := keys[(i+rot)%nk]
			if kind == "putf" {
				ops = append(ops, fmt.Sprintf("putf:%s:0:64", k))
			} else {
				ops = append(ops, kind+":"+k)
			}
		}
		sc.Procs = append(sc.Procs, ops)
	}
	return sc
}

type stressResult struct {
	result
	gone map[string]string // signature -> description of GONE events (aged flavour: the known grey area)
}

func ageFile(path string, days int) {
	if days == 0 {
		return
	}
	tm := time.Now().Add(-time.Duration(days) * 24 * time.Hour)
	os.Chtimes(path, tm, tm)
}

func evalStress(sc StressCase) (res stressResult) {
	dir, err := newCacheDir()
	if err != nil {
		res.infra = err.Error()
		return
	}
	defer os.RemoveAll(dir)

	acceptable := map[string][][]byte{}
	protected := map[string]bool{} // no aged or damaged file: the entry may not be lost
	hasPre := map[string]bool{}
	known := map[string]int{}
	defer untrackDir(dir)
	addAcc := func(k string, d []byte) {
		trackDir(dir, []string{k}, d)
		if !member(d, acceptable[k]) {
			acceptable[k] = append(acceptable[k], d)
		}
		known[fmt.Sprintf("%x", OutID(d))] = len(d)
	}
	for _, k := range append(append([]string{}, stableKeys...), volatileKeys...) {
		protected[k] = true
	}
	for _, pe := range sc.Pre {
		data := Content(pe.Key, pe.Ver, pe.Size)
		addAcc(pe.Key, data)
		if _, ok := protected[pe.Key]; !ok {
			protected[pe.Key] = true
		}
		if err := putFull(dir, pe.Key, data); err != nil {
			res.infra = "populate: " + err.Error()
			return
		}
		ip, dp := indexPath(dir, pe.Key), dataPath(dir, data)
		switch pe.Damage {
		case "noindex":
			os.Remove(ip)
		case "nodata":
			os.Remove(dp)
		case "halfdata":
			os.Truncate(dp, int64(pe.Size/2))
		case "halfindex":
			os.Truncate(ip, entrySize/2)
		}
		ageFile(ip, pe.IdxDays)
		ageFile(dp, pe.DataDays)
		if pe.Damage != "" || pe.IdxDays > 4 || pe.DataDays > 4 {
			protected[pe.Key] = false
		} else {
			hasPre[pe.Key] = true
		}
	}
	switch sc.TrimTxt {
	case "old":
		os.WriteFile(filepath.Join(dir, "trim.txt"), []byte(strconv.FormatInt(time.Now().Add(-48*time.Hour).Unix(), 10)), 0o666)
	case "fresh":
		os.WriteFile(filepath.Join(dir, "trim.txt"), []byte(strconv.FormatInt(time.Now().Unix(), 10)), 0o666)
	}
	preDamage := scanDamage(dir, known)

	// start all processes, release them together
	type proc struct {
		cmd   *exec.Cmd
		stdin io.WriteCloser
		out   *bufio.Reader
		buf   bytes.Buffer
	}
	var procs []*proc
	kill := func() {
		for _, p := range procs {
			p.cmd.Process.Kill()
			p.cmd.Wait()
		}
	}
	for _, ops := range sc.Procs {
		for _, op := range ops {
			f := strings.Split(op, ":")
			if f[0] == "put" || f[0] == "putf" {
				ver, _ := strconv.Atoi(f[2])
				n, _ := strconv.Atoi(f[3])
				addAcc(f[1], Content(f[1], ver, n))
				if _, ok := protected[f[1]]; !ok {
					protected[f[1]] = true
				}
			}
		}
		cmd := exec.Command(bin("cachestress"), append([]string{"-dir", dir}, ops...)...)
		cmd.Env = append(os.Environ(), "GOMAXPROCS=2")
		in, _ := cmd.StdinPipe()
		outp, _ := cmd.StdoutPipe()
		cmd.Stderr = os.Stderr
		if err := cmd.Start(); err != nil {
			kill()
			res.infra = "start cachestress: " + err.Error()
			return
		}
		procs = append(procs, &proc{cmd: cmd, stdin: in, out: bufio.NewReader(outp)})
	}
	for _, p := range procs {
		line, err := p.out.ReadString('\n')
		if err != nil || strings.TrimSpace(line) != "READY" {
			kill()
			res.infra = fmt.Sprintf("cachestress did not become ready: %q %v", line, err)
			return
		}
	}
	for _, p := range procs {
		io.WriteString(p.stdin, "go\n")
	}
	done := make(chan struct{}, len(procs))
	for _, p := range procs {
		p := p
		go func() {
			io.Copy(&p.buf, p.out)
			p.cmd.Wait()
			done <- struct{}{}
		}()
	}
	timeout := time.After(120 * time.Second)
	for range procs {
		select {
		case <-done:
		case <-timeout:
			kill()
			res.infra = "cachestress processes did not finish within 120s"
			return
		}
	}

	// verdict over the logs
	var sb strings.Builder
	gone := map[string]string{}
	okPut := map[string]bool{}
	counts := map[string]int{}
	for pi, p := range procs {
		if !p.cmd.ProcessState.Success() {
			fmt.Fprintf(&sb, "process %d ended with %v\n", pi, p.cmd.ProcessState)
		}
		lines := strings.Split(strings.TrimSpace(p.buf.String()), "\n")
		for _, line := range lines {
			f := strings.Fields(line)
			if len(f) < 2 {
				continue
			}
			opf := strings.Split(f[1], ":")
			key := ""
			if len(opf) > 1 {
				key = opf[1]
			}
			counts[f[0]]++
			switch f[0] {
			case "OK":
				if opf[0] == "put" || opf[0] == "putf" {
					okPut[key] = true
				}
			case "VALID":
				ver, _ := strconv.Atoi(f[2])
				found := false
				for _, a := range acceptable[key] {
					if v, err := Validate(key, a); err == nil && v == ver {
						found = true
					}
				}
				if !found {
					fmt.Fprintf(&sb, "process %d: %s: complete content of version %d, which nobody stored under %s\n", pi, f[1], ver, key)
				}
			case "MISS":
				if isStable(key) && protected[key] && hasPre[key] {
					fmt.Fprintf(&sb, "process %d: %s missed, but key %s was stored before the start, is neither aged nor damaged and is only ever re-stored with identical content\n", pi, f[1], key)
				}
			case "GONE", "PARTIAL":
				if sc.Aged {
					sig := sigGetGone
					if opf[0] == "putf" {
						sig = sigPutGone
					}
					gone[sig] += fmt.Sprintf("process %d: %s\n", pi, line)
				} else {
					fmt.Fprintf(&sb, "process %d: %s: a path handed out by the cache could not be read completely although no file was old enough to be trimmed\n", pi, line)
				}
			default: // INVALID, ERR, FATAL
				fmt.Fprintf(&sb, "process %d: %s\n", pi, line)
			}
		}
	}
	// quiescent state
	for k, acc := range acceptable {
		var must [][]byte
		if protected[k] && (hasPre[k] || okPut[k]) {
			must = acc
		}
		l, err := lookup(dir, k)
		if err != nil {
			res.infra = err.Error()
			return
		}
		if m := verdict(l, k, acc, must); m != "" {
			sb.WriteString("after all processes exited: " + m)
		}
	}
	if sb.Len() > 0 || len(gone) > 0 {
		var logs strings.Builder
		for pi, p := range procs {
			fmt.Fprintf(&logs, "--- process %d ops %v\n%s", pi, sc.Procs[pi], p.buf.String())
		}
		tail := "entry files at the end: " + listingString(entryFiles(listCache(dir))) + "\n" + clipStr(logs.String(), 2500)
		if sb.Len() > 0 {
			res.msg = sb.String() + tail
		}
		for sig, g := range gone {
			gone[sig] = g + tail
		}
		res.gone = gone
	}
	res.nontrivial = preDamage.any() || counts["MISS"] > 0 && counts["OK"] > 0
	shape := fmt.Sprintf("p%d", len(sc.Procs))
	res.hash = ev.Hash("stress", fmt.Sprint(sc.Aged), sc.TrimTxt, shape, fmt.Sprint(sc.Pre), fmt.Sprint(sc.Procs))
	res.classes = []string{"stress", "stress_procs_" + itoa(len(sc.Procs))}
	for k, n := range counts {
		ev.Count("stress_line_"+k, n)
	}
	res.classes = append(res.classes, damageClasses(preDamage)...)
	return
}

func clipStr(s string, n int) string {
	if len(s) > n {
		return s[:n] + "…"
	}
	return s
}

func stressProp(t *testing.T, test string, aged bool) {
	violated := false
	over := localBudget("STRESS", 15, 150)
	ev.Check(t, test, func(rt *rapid.T) {
		if violated || over() {
			return
		}
		sc := genStress(rt, aged)
		rep := Replay{Kind: "stress", Stress: &sc}
		ev.Begin(test, "json", rep.bytes())
		res := evalStress(sc)
		if res.infra != "" {
			ev.Infra("%s: %s", test, res.infra)
			rt.Skip(res.infra)
		}
		ev.Case(res.hash, res.nontrivial, res.classes...)
		if res.nontrivial && ev.WantSample() {
			ev.Sample(rep)
		}
		// Failures here depend on the interleaving, so rapid can neither shrink nor
		// re-run them reliably: the case is re-evaluated a few times for the record
		// and reported directly with the generated op lists as replay.
		report := func(msg string) {
			again := 0
			for i := 0; i < 3; i++ {
				if r2 := evalStress(sc); r2.msg != "" || len(r2.gone) > 0 {
					again++
				}
			}
			violated = true
			ev.Violate(test, fmt.Sprintf("%s(the same op lists failed again in %d of 3 further runs)\n", msg, again), "json", rep.bytes())
		}
		if res.msg != "" {
			report(res.msg)
			return
		}
		for _, sig := range []string{sigGetGone, sigPutGone} {
			g, ok := res.gone[sig]
			if !ok {
				continue
			}
			if ev.IsKnown(sig) {
				ev.KnownFinding(sig, "")
			} else {
				report(fmt.Sprintf("[%s] a path handed out by the cache was removed by a concurrent Trim (and possibly re-created by another writer) before it could be read completely:\n%s", sig, g))
				return
			}
		}
	})
}

func TestStressFresh(t *testing.T) {
	defer timed("TestStressFresh")()
	ev.Rule(rule)
	ev.Assume("schedules of concurrent processes are sampled (start barrier, OS scheduling), not enumerated")
	scaled(float64(ev.EnvInt("C05_STRESS_SCALE", 2, 2)), 2, func() { stressProp(t, "TestStressFresh", false) })
}

// TestStressAgedTrim contains the expected grey area: with entries older than
// the trim limit and a concurrent Trim, a path already handed out can vanish.
func TestStressAgedTrim(t *testing.T) {
	defer timed("TestStressAgedTrim")()
	ev.Rule(rule)
	scaled(float64(ev.EnvInt("C05_STRESS_SCALE", 2, 2)), 2, func() { stressProp(t, "TestStressAgedTrim", true) })
}
