package c05

import (
	"bytes"
	"crypto/sha256"
	"encoding/json"
	"flag"
	"fmt"
	"os"
	"os/exec"
	"path/filepath"
	"sort"
	"strconv"
	"strings"
	"sync"
	"syscall"
	"testing"
	"time"

	"honnef.co/go/tools/lintcmd/cache"
	"verif/harness/internal/ev"
)

func TestMain(m *testing.M) { ev.Main(m) }

const rule = "case = one fault state or schedule of the on-disk cache followed by lookups through a fresh cache.Open: " +
	"(crash) the real Put killed by SIGKILL after k bytes of the copy pass (helper putter; sizes 0,1,2,100 with every k, 70000 with boundary k; chunk sizes 1,7,1000,4096,unlimited; pre-states fresh / older version stored / partial data file / index without data / same content; also with an input that changes between the two passes), " +
	"(strace) the same helper killed by strace fault injection on entering its N-th openat/write/ftruncate/close/utimensat/unlinkat for every N until it runs to completion, " +
	"(trunc/delete) every truncation length 0..174 of every index file, every length (<=100 bytes) or a boundary grid of every data file, every subset of removed files of a 6-entry cache (11 files), index x data pairs, " +
	"(seq) rapid-generated sequences of put / crash-put / truncate / remove / age+Trim on 3 keys, " +
	"(stress) rapid-generated op lists of 2..8 cachestress processes on one directory with pre-populated, damaged and aged entries, released together, " +
	"(trimrace) the two windows between obtaining a path and reading it, held open with strace delay injection, " +
	"(e2e) staticcheck -f json on a generated two-package module: damaged real entries (file x {0,1,half,size-1,removed}), SIGKILL of a running staticcheck, 2..4 concurrent runs with a trimmer on fresh and on aged entries. " +
	"Oracle: GetBytes/GetFile miss or return exactly a content stored under that key, consistent with the entry's size and output id; entries no fault touched still hit; a later full Put succeeds and is served; staticcheck stdout and exit status equal the cold-cache reference. " +
	"Non-trivial = at the time of a lookup at least one cache file existed in partial or orphaned form (short index, short data file, index pointing to missing/short data, data without index), or several processes were active on the directory. " +
	"Distinct by (sub-check, fault kind, file kind / content size, offset class, pre-state); schedules by their op lists."

const entrySize = 175 // "v1 <64 hex> <64 hex> <20> <20>\n"

// ---------------------------------------------------------------------------
// paths, lookups, verdicts

func bin(name string) string { return filepath.Join(ev.BinDir(), name) }

func indexPath(dir, key string) string {
	id := ID(key)
	return filepath.Join(dir, fmt.Sprintf("%02x", id[0]), fmt.Sprintf("%x-a", id))
}

func dataPath(dir string, data []byte) string {
	o := OutID(data)
	return filepath.Join(dir, fmt.Sprintf("%02x", o[0]), fmt.Sprintf("%x-d", o))
}

// newCacheDir makes a temp dir with the 256 sub-directories (through the real Open).
func newCacheDir() (string, error) {
	dir, err := os.MkdirTemp("", "c05-cache-")
	if err != nil {
		return "", err
	}
	if _, err := cache.Open(dir); err != nil {
		os.RemoveAll(dir)
		return "", err
	}
	return dir, nil
}

// resetCacheDir removes every file below dir, keeping the 256 sub-directories.
func resetCacheDir(dir string) {
	for _, f := range listCache(dir) {
		os.Remove(filepath.Join(dir, f.Rel))
	}
}

func putFull(dir, key string, data []byte) error {
	c, err := cache.Open(dir)
	if err != nil {
		return err
	}
	out, size, err := c.Put(ID(key), bytes.NewReader(data))
	if err != nil {
		return err
	}
	if out != OutID(data) || size != int64(len(data)) {
		return fmt.Errorf("Put returned output id %x size %d for content %x size %d", out, size, OutID(data), len(data))
	}
	return nil
}

type look struct {
	BHit   bool
	B      []byte
	BEntry cache.Entry
	FHit   bool
	F      []byte
	FEntry cache.Entry
	FGone  error
}

func lookupWith(c *cache.DiskCache, key string) look {
	var l look
	if data, e, err := cache.GetBytes(c, ID(key)); err == nil {
		l.BHit, l.B, l.BEntry = true, data, e
	}
	if file, e, err := cache.GetFile(c, ID(key)); err == nil {
		data, err := os.ReadFile(file)
		if err != nil {
			l.FGone = err
		} else {
			l.FHit, l.F, l.FEntry = true, data, e
		}
	}
	return l
}

func lookup(dir, key string) (look, error) {
	c, err := cache.Open(dir)
	if err != nil {
		return look{}, err
	}
	return lookupWith(c, key), nil
}

func short(b []byte) string {
	if len(b) > 32 {
		return fmt.Sprintf("%q… (%d bytes, sha256 %x)", b[:32], len(b), sha256.Sum256(b))
	}
	return fmt.Sprintf("%q", b)
}

func member(b []byte, acceptable [][]byte) bool {
	for _, a := range acceptable {
		if bytes.Equal(a, b) {
			return true
		}
	}
	return false
}

// verdict applies the oracle to one lookup. acceptable: the contents ever
// stored (or attempted) under key; must: nil if a miss is admissible, else the
// lookup has to hit with one of these contents (intact / just stored entry).
func verdict(l look, key string, acceptable [][]byte, must [][]byte) string {
	var sb strings.Builder
	one := func(api string, hit bool, data []byte, e cache.Entry) {
		if !hit {
			if must != nil {
				fmt.Fprintf(&sb, "%s(%s): miss, but the entry (%s) is intact/was just stored\n", api, key, short(must[0]))
			}
			return
		}
		if !member(data, acceptable) {
			fmt.Fprintf(&sb, "%s(%s) returned %s, which was never stored under that key\n", api, key, short(data))
		} else if must != nil && !member(data, must) {
			fmt.Fprintf(&sb, "%s(%s) returned %s, expected the stored content %s\n", api, key, short(data), short(must[0]))
		}
		if e.Size != int64(len(data)) {
			fmt.Fprintf(&sb, "%s(%s): entry size %d, %d bytes returned\n", api, key, e.Size, len(data))
		}
		if e.OutputID != OutID(data) {
			fmt.Fprintf(&sb, "%s(%s): entry output id %x, returned bytes hash to %x\n", api, key, e.OutputID, OutID(data))
		}
	}
	one("GetBytes", l.BHit, l.B, l.BEntry)
	one("GetFile", l.FHit, l.F, l.FEntry)
	if l.FGone != nil {
		fmt.Fprintf(&sb, "GetFile(%s) returned a path that cannot be read: %v\n", key, l.FGone)
	}
	return sb.String()
}

type result struct {
	msg, infra string
	nontrivial bool
	hash       string
	classes    []string
	artefact   []cfile // e2e kill: what the dead process left behind
}

// ---------------------------------------------------------------------------
// directory state

type cfile struct {
	Rel  string `json:"name"`
	Size int64  `json:"size"`
}

// tracked: for cache directories whose possible file names the harness knows
// (all keys and contents it uses there), the sub-directories that can hold
// files. Listing then reads only those instead of all 256.
var (
	trackMu sync.Mutex
	tracked = map[string]map[string]bool{}
)

func trackDir(dir string, keys []string, contents ...[]byte) {
	trackMu.Lock()
	defer trackMu.Unlock()
	m := tracked[dir]
	if m == nil {
		m = map[string]bool{}
		tracked[dir] = m
	}
	for _, k := range keys {
		id := ID(k)
		m[fmt.Sprintf("%02x", id[0])] = true
	}
	for _, c := range contents {
		o := OutID(c)
		m[fmt.Sprintf("%02x", o[0])] = true
	}
}

func untrackDir(dir string) {
	trackMu.Lock()
	delete(tracked, dir)
	trackMu.Unlock()
}

func listCache(dir string) []cfile {
	trackMu.Lock()
	var subset []string
	if m, ok := tracked[dir]; ok {
		for s := range m {
			subset = append(subset, s)
		}
	}
	trackMu.Unlock()
	if subset != nil {
		var out []cfile
		for _, name := range []string{"trim.txt", "README"} {
			if info, err := os.Stat(filepath.Join(dir, name)); err == nil {
				out = append(out, cfile{name, info.Size()})
			}
		}
		for _, s := range subset {
			fs, _ := os.ReadDir(filepath.Join(dir, s))
			for _, f := range fs {
				if info, err := f.Info(); err == nil {
					out = append(out, cfile{s + "/" + f.Name(), info.Size()})
				}
			}
		}
		sort.Slice(out, func(i, j int) bool { return out[i].Rel < out[j].Rel })
		return out
	}
	return listCacheFull(dir)
}

func listCacheFull(dir string) []cfile {
	var out []cfile
	subs, _ := os.ReadDir(dir)
	for _, s := range subs {
		if !s.IsDir() {
			if info, err := s.Info(); err == nil {
				out = append(out, cfile{s.Name(), info.Size()})
			}
			continue
		}
		fs, _ := os.ReadDir(filepath.Join(dir, s.Name()))
		for _, f := range fs {
			if info, err := f.Info(); err == nil {
				out = append(out, cfile{s.Name() + "/" + f.Name(), info.Size()})
			}
		}
	}
	sort.Slice(out, func(i, j int) bool { return out[i].Rel < out[j].Rel })
	return out
}

func entryFiles(fs []cfile) []cfile {
	var out []cfile
	for _, f := range fs {
		if strings.HasSuffix(f.Rel, "-a") || strings.HasSuffix(f.Rel, "-d") {
			out = append(out, f)
		}
	}
	return out
}

func listingString(fs []cfile) string {
	var sb strings.Builder
	for _, f := range fs {
		fmt.Fprintf(&sb, "%s:%d ", f.Rel, f.Size)
	}
	return sb.String()
}

// damage describes partial/orphaned files in a cache directory.
type damage struct {
	ShortIndex  int // index files that do not hold a complete entry
	ShortData   int // data files shorter than the size announced by an index entry or known for their name
	Dangling    int // complete index entries whose data file is missing or short
	OrphanData  int // data files no complete index entry points to
	EntryFiles  int
	description []string
}

func (d damage) any() bool { return d.ShortIndex+d.ShortData+d.Dangling+d.OrphanData > 0 }

// scanDamage inspects dir. known maps the hex output id of every content the
// harness ever wrote to its full length.
func scanDamage(dir string, known map[string]int) damage {
	var d damage
	fs := entryFiles(listCache(dir))
	d.EntryFiles = len(fs)
	sizes := map[string]int64{}
	for _, f := range fs {
		sizes[filepath.Base(f.Rel)] = f.Size
	}
	pointed := map[string]bool{}
	for _, f := range fs {
		base := filepath.Base(f.Rel)
		if !strings.HasSuffix(base, "-a") {
			continue
		}
		b, _ := os.ReadFile(filepath.Join(dir, f.Rel))
		if len(b) != entrySize {
			d.ShortIndex++
			continue
		}
		out := string(b[3+64+1 : 3+64+1+64])
		size, _ := strconv.ParseInt(strings.TrimSpace(string(b[3+64+1+64+1:3+64+1+64+1+20])), 10, 64)
		pointed[out+"-d"] = true
		if have, ok := sizes[out+"-d"]; !ok || have != size {
			d.Dangling++
		}
	}
	for _, f := range fs {
		base := filepath.Base(f.Rel)
		if !strings.HasSuffix(base, "-d") {
			continue
		}
		if full, ok := known[strings.TrimSuffix(base, "-d")]; ok && f.Size < int64(full) {
			d.ShortData++
		}
		if !pointed[base] {
			d.OrphanData++
		}
	}
	return d
}

func offClass(k, size int) string {
	switch {
	case k < 0:
		return "removed"
	case k == 0:
		return "0"
	case k == 1:
		return "1"
	case k == size-1:
		return "last"
	case k >= size:
		return "full"
	case k%32768 == 0:
		return "32k"
	case k%32768 == 1 || k%32768 == 32767:
		return "32k±1"
	case k%4096 == 0:
		return "4k"
	case k%4096 == 1 || k%4096 == 4095:
		return "4k±1"
	case k < size/2:
		return "lo"
	}
	return "hi"
}

// ---------------------------------------------------------------------------
// helper processes

type procResult struct {
	Out    string
	Err    string
	Killed bool // terminated by SIGKILL
	RC     int
}

func runProc(dir string, env []string, name string, args ...string) (procResult, error) {
	cmd := exec.Command(name, args...)
	cmd.Dir = dir
	cmd.Env = append(os.Environ(), env...)
	var o, e bytes.Buffer
	cmd.Stdout, cmd.Stderr = &o, &e
	err := cmd.Run()
	r := procResult{Out: o.String(), Err: e.String()}
	if err != nil {
		ee, ok := err.(*exec.ExitError)
		if !ok {
			return r, err
		}
		if ws, ok := ee.Sys().(syscall.WaitStatus); ok && ws.Signaled() {
			r.Killed = ws.Signal() == syscall.SIGKILL
			r.RC = 128 + int(ws.Signal())
		} else {
			r.RC = ee.ExitCode()
		}
	}
	return r, nil
}

func itoa(n int) string { return strconv.Itoa(n) }

// localBudget returns a function reporting whether the test has used up its
// share of the tier's wall-clock budget (quick: so that the later sub-checks
// still get their turn on a loaded machine). Never a verdict.
func localBudget(name string, quickS, thoroughS int) func() bool {
	t0 := time.Now()
	limit := time.Duration(ev.EnvInt("C05_BUDGET_"+name, quickS, thoroughS)) * time.Second
	return func() bool {
		if time.Since(t0) > limit {
			ev.Count("cases_cut_by_local_budget_"+name, 1)
			return true
		}
		return false
	}
}

// timed records the wall time of a test (summed over shards in the evidence).
func timed(name string) func() {
	t0 := time.Now()
	return func() { ev.Extra("seconds_"+name, time.Since(t0).Seconds()) }
}

// scaled runs fn with rapid's -rapid.checks multiplied by f (at least min).
func scaled(f float64, min int, fn func()) {
	fl := flag.Lookup("rapid.checks")
	if fl == nil {
		fn()
		return
	}
	old := fl.Value.String()
	n, _ := strconv.Atoi(old)
	m := int(float64(n) * f)
	if m < min {
		m = min
	}
	flag.Set("rapid.checks", strconv.Itoa(m))
	defer flag.Set("rapid.checks", old)
	fn()
}

// ---------------------------------------------------------------------------
// replay files

type Replay struct {
	Kind   string      `json:"kind"` // crash | strace | fault | seq | stress | e2e-fault | e2e-kill | e2e-conc
	Crash  *CrashCase  `json:"crash,omitempty"`
	Strace *StraceCase `json:"strace,omitempty"`
	Fault  *FaultCase  `json:"fault,omitempty"`
	Seq    *SeqCase    `json:"seq,omitempty"`
	Stress *StressCase `json:"stress,omitempty"`
	E2E    *E2ECase    `json:"e2e,omitempty"`

	TrimRace *TrimRaceCase `json:"trimrace,omitempty"`
	Writers  *WritersCase  `json:"writers,omitempty"`
}

func (r Replay) bytes() []byte {
	b, _ := json.MarshalIndent(r, "", " ")
	return b
}

// replayNote: set by replayOne when the replayed case reproduced a known finding.
var replayNote string

// replayOne evaluates one replay file and returns (violation message, infra message).
func replayOne(r Replay) (string, string) {
	replayNote = ""
	switch r.Kind {
	case "crash":
		res := evalCrash(*r.Crash)
		return res.msg, res.infra
	case "strace":
		if !straceUsable() {
			return "", ""
		}
		res, _ := evalStrace(*r.Strace)
		return res.msg, res.infra
	case "fault":
		p, err := newPop()
		if err != nil {
			return "", err.Error()
		}
		defer os.RemoveAll(p.dir)
		res := p.evalFault(*r.Fault)
		return res.msg, res.infra
	case "seq":
		res := evalSeq(*r.Seq)
		return res.msg, res.infra
	case "writers":
		if !straceUsable() {
			return "", ""
		}
		res := evalWriters(*r.Writers)
		return res.msg, res.infra
	case "trimrace":
		if !straceUsable() {
			return "", ""
		}
		res, reproduced := evalTrimRace(*r.TrimRace)
		if reproduced && ev.IsKnown(trimRaceSig(r.TrimRace.Shape)) {
			ev.KnownFinding(trimRaceSig(r.TrimRace.Shape), "")
			replayNote = "known finding " + trimRaceSig(r.TrimRace.Shape) + " reproduced: " + res.msg
			return "", res.infra
		}
		return res.msg, res.infra
	case "stress":
		res := evalStress(*r.Stress)
		for sig, g := range res.gone {
			if ev.IsKnown(sig) {
				ev.KnownFinding(sig, "")
				replayNote = "known finding " + sig + " reproduced"
			} else if res.msg == "" {
				return "[" + sig + "] " + g, res.infra
			}
		}
		return res.msg, res.infra
	case "e2e-fault", "e2e-kill", "e2e-conc", "e2e-aged":
		env, err := e2eSetup()
		if err != nil {
			return "", err.Error()
		}
		res := env.eval(*r.E2E)
		return res.msg, res.infra
	}
	return "", "unknown replay kind " + r.Kind
}

func replayFile(t *testing.T, f, test string) {
	b, err := os.ReadFile(f)
	if err != nil {
		ev.Infra("read %s: %v", f, err)
		return
	}
	var r Replay
	if err := json.Unmarshal(b, &r); err != nil {
		ev.Infra("decode %s: %v", f, err)
		return
	}
	msg, infra := replayOne(r)
	if infra != "" {
		ev.Infra("%s: %s", f, infra)
		return
	}
	ev.Case(ev.Hash("replay", string(b)), false, "replayed")
	if msg != "" {
		ev.Violate(test, fmt.Sprintf("replay of %s:\n%s", f, msg), "json", b)
		t.Errorf("%s", msg)
	} else if replayNote != "" {
		t.Logf("replay %s: %s", f, replayNote)
	} else {
		t.Logf("replay %s: property holds", f)
	}
}

func TestCorpus(t *testing.T) {
	if os.Getenv("VERIF_SECONDARY") != "" {
		return
	}
	ev.Rule(rule)
	files, _ := filepath.Glob(filepath.Join(os.Getenv("VERIF_ROOT"), "corpus", "C05", "*.json"))
	sort.Strings(files)
	for _, f := range files {
		replayFile(t, f, "TestCorpus")
	}
}

func TestReplay(t *testing.T) {
	if f := ev.ReplayFile(); f != "" {
		replayFile(t, f, "TestReplay")
		e2eCleanup() // TestReplay runs alone
	}
}

var _ = time.Now
