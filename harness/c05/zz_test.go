package c05

import (
	"testing"

	"verif/harness/internal/ev"
)

// TestZExhaustive records whether the finite enumerations were completed.
func TestZExhaustive(t *testing.T) {
	ev.Exhaustive(!enumIncomplete)
}

// TestZZCleanup runs last and removes the shared e2e fixtures.
func TestZZCleanup(t *testing.T) {
	e2eCleanup()
}
