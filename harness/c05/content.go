// Package c05 holds the C05 check (cache never serves wrong bytes). This file is
// the part shared with the helper binaries cmd/putter and cmd/cachestress:
// deterministic, self-describing contents and the key -> ActionID mapping.
package c05

import (
	"bytes"
	"crypto/sha256"
	"fmt"
	"strconv"
	"strings"

	"honnef.co/go/tools/lintcmd/cache"
)

// MinSelfDescribing is the smallest total length for which a content carries
// its complete header (keys are short, versions and lengths small).
const MinSelfDescribing = 40

// Content returns the deterministic content of exactly total bytes for
// (key, version): the header "key,version,total\n" followed by a PRNG stream
// seeded from the header, cut to total bytes.
func Content(key string, ver, total int) []byte {
	hdr := fmt.Sprintf("%s,%d,%d\n", key, ver, total)
	out := make([]byte, 0, total)
	out = append(out, hdr...)
	if len(out) > total {
		return out[:total]
	}
	sum := sha256.Sum256([]byte(hdr))
	var x uint64
	for i := 0; i < 8; i++ {
		x = x<<8 | uint64(sum[i])
	}
	if x == 0 {
		x = 1
	}
	for len(out) < total {
		// xorshift64*
		x ^= x >> 12
		x ^= x << 25
		x ^= x >> 27
		v := x * 0x2545F4914F6CDD1D
		for j := 0; j < 8 && len(out) < total; j++ {
			out = append(out, byte(v>>(8*j)))
		}
	}
	return out
}

// Validate checks that data is a complete content written for key (any
// version). It returns the version.
func Validate(key string, data []byte) (ver int, err error) {
	nl := bytes.IndexByte(data, '\n')
	if nl < 0 || nl > MinSelfDescribing {
		return 0, fmt.Errorf("no header in %d bytes (starts %q)", len(data), clip(data))
	}
	parts := strings.Split(string(data[:nl]), ",")
	if len(parts) != 3 {
		return 0, fmt.Errorf("malformed header %q", data[:nl])
	}
	ver, e1 := strconv.Atoi(parts[1])
	total, e2 := strconv.Atoi(parts[2])
	if e1 != nil || e2 != nil {
		return 0, fmt.Errorf("malformed header %q", data[:nl])
	}
	if parts[0] != key {
		return ver, fmt.Errorf("content of key %q served for key %q", parts[0], key)
	}
	if total != len(data) {
		return ver, fmt.Errorf("header %q announces %d bytes, got %d", data[:nl], total, len(data))
	}
	if !bytes.Equal(Content(key, ver, total), data) {
		return ver, fmt.Errorf("body differs from the content generated for header %q", data[:nl])
	}
	return ver, nil
}

// IsProperPrefix reports whether data is a proper prefix of a content of
// total bytes written for key (some version).
func IsProperPrefix(key string, data []byte, total int) bool {
	if len(data) >= total {
		return false
	}
	nl := bytes.IndexByte(data, '\n')
	if nl < 0 {
		// not even the header is complete
		want := []byte(key + ",")
		n := len(data)
		if n > len(want) {
			n = len(want)
		}
		return len(data) < MinSelfDescribing && bytes.Equal(data[:n], want[:n])
	}
	parts := strings.Split(string(data[:nl]), ",")
	if len(parts) != 3 || parts[0] != key {
		return false
	}
	ver, e1 := strconv.Atoi(parts[1])
	n, e2 := strconv.Atoi(parts[2])
	if e1 != nil || e2 != nil || n != total {
		return false
	}
	return bytes.HasPrefix(Content(key, ver, total), data)
}

func clip(b []byte) []byte {
	if len(b) > 24 {
		return b[:24]
	}
	return b
}

// ID maps a key name to its action id.
func ID(key string) cache.ActionID {
	return cache.ActionID(sha256.Sum256([]byte("c05 key " + key)))
}

// OutID is the output id (content hash) the cache computes for data.
func OutID(data []byte) cache.OutputID {
	return cache.OutputID(sha256.Sum256(data))
}
