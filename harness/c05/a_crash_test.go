package c05

import (
	"fmt"
	"os"
	"os/exec"
	"path/filepath"
	"strings"
	"sync"
	"testing"

	"verif/harness/internal/ev"
)

// ---------------------------------------------------------------------------
// sub-check 1a: the writer kills itself after k bytes of the copy pass

type CrashCase struct {
	Pre   string `json:"pre"`   // fresh | oldver | partial | indexonly | same
	PreK  int    `json:"pre_k"` // length of the pre-existing partial data file (pre=partial)
	Size  int    `json:"size"`
	K     int    `json:"k"`     // bytes handed out before SIGKILL
	Pass  int    `json:"pass"`  // 1 = hash pass, 2 = copy pass
	Chunk int    `json:"chunk"` // 0 = unlimited
	// Underfoot: the input serves a different byte at offset size/2 in the copy
	// pass ("file content changed underfoot"): Put has to fail, and the bytes
	// it copied must never be served
	Underfoot bool `json:"underfoot,omitempty"`
}

const crashKey = "k"

// setupPre builds the pre-state in dir. It returns the content about to be
// stored and the older version that may already be there.
func setupPre(dir, pre string, preK, size int) (newData, oldData []byte, err error) {
	newData = Content(crashKey, 1, size)
	oldData = Content(crashKey, 0, size)
	trackDir(dir, []string{crashKey, "probe"}, newData, oldData, Content("probe", 1, 10))
	switch pre {
	case "fresh":
	case "oldver":
		err = putFull(dir, crashKey, oldData)
	case "partial":
		if preK > size {
			preK = size
		}
		err = os.WriteFile(dataPath(dir, newData), newData[:preK], 0o666)
	case "indexonly":
		if err = putFull(dir, crashKey, newData); err == nil {
			err = os.Remove(dataPath(dir, newData))
		}
	case "same":
		err = putFull(dir, crashKey, newData)
	default:
		err = fmt.Errorf("unknown pre-state %q", pre)
	}
	return
}

func knownSizes(contents ...[]byte) map[string]int {
	m := map[string]int{}
	for _, c := range contents {
		m[fmt.Sprintf("%x", OutID(c))] = len(c)
	}
	return m
}

// afterCrash applies the oracle to the directory a dead writer left behind,
// then stores the content completely and checks that it is served.
func afterCrash(dir, pre string, newData, oldData []byte, completed bool, freshProc bool) (msg string, infra string, dmg damage, hit string) {
	acceptable := [][]byte{newData}
	var must [][]byte
	switch {
	case completed:
		must = [][]byte{newData}
	case pre == "same":
		// putIndexEntry: "a second write of the same content to the same file is
		// idempotent, and does not — even temporarily! — undo the effect of the first write"
		must = [][]byte{newData}
	case pre == "oldver":
		acceptable = append(acceptable, oldData)
		// the old entry's files are complete at every point of the new store; the
		// index is replaced by one write of the same length
		must = [][]byte{oldData, newData}
	}
	dmg = scanDamage(dir, knownSizes(newData, oldData))
	l, err := lookup(dir, crashKey)
	if err != nil {
		return "", err.Error(), dmg, ""
	}
	hit = "miss"
	if l.BHit || l.FHit {
		hit = "hit"
	}
	msg = verdict(l, crashKey, acceptable, must)
	if freshProc {
		// the same lookup from a new process
		r, err := runProc("", []string{"GOMAXPROCS=1"}, bin("putter"), "-dir", dir, "-key", crashKey, "-get")
		if err != nil || r.RC != 0 {
			return "", fmt.Sprintf("putter -get: %v rc=%d %s", err, r.RC, r.Err), dmg, hit
		}
		for _, line := range strings.Split(strings.TrimSpace(r.Out), "\n") {
			f := strings.Fields(line)
			if len(f) >= 5 && f[1] == "HIT" {
				ok := false
				for _, a := range acceptable {
					if f[2] == fmt.Sprintf("%x", OutID(a)) && f[3] == itoa(len(a)) && f[4] == itoa(len(a)) {
						ok = true
					}
				}
				if !ok {
					msg += "lookup from a fresh process: " + line + " is not a content stored under the key\n"
				}
			} else if len(f) >= 2 && f[1] == "GONE" {
				msg += "lookup from a fresh process: " + line + "\n"
			} else if must != nil {
				msg += "lookup from a fresh process: " + line + ", but the entry is intact\n"
			}
		}
	}
	if msg != "" {
		msg += "cache directory after the crash: " + listingString(entryFiles(listCache(dir))) + "\n"
		return msg, "", dmg, hit
	}
	// a later full Put succeeds and is then served
	if freshProc {
		r, err := runProc("", []string{"GOMAXPROCS=1"}, bin("putter"), "-dir", dir, "-key", crashKey, "-ver", "1", "-len", itoa(len(newData)))
		if err != nil {
			return "", "putter: " + err.Error(), dmg, hit
		}
		if r.RC != 0 || !strings.HasPrefix(r.Out, "DONE ") {
			return fmt.Sprintf("a complete Put (new process) after the crash failed: rc=%d %s%s\n", r.RC, r.Out, r.Err), "", dmg, hit
		}
	} else if err := putFull(dir, crashKey, newData); err != nil {
		return fmt.Sprintf("a complete Put after the crash failed: %v\n", err), "", dmg, hit
	}
	l, err = lookup(dir, crashKey)
	if err != nil {
		return "", err.Error(), dmg, hit
	}
	if m := verdict(l, crashKey, [][]byte{newData}, [][]byte{newData}); m != "" {
		msg = "after a complete Put following the crash: " + m + "cache directory: " + listingString(entryFiles(listCache(dir))) + "\n"
	}
	return msg, "", dmg, hit
}

func evalCrash(c CrashCase) (res result) {
	dir, err := newCacheDir()
	if err != nil {
		res.infra = err.Error()
		return
	}
	defer os.RemoveAll(dir)
	return evalCrashIn(dir, c)
}

// evalCrashIn evaluates c in the (empty) cache directory dir.
func evalCrashIn(dir string, c CrashCase) (res result) {
	newData, oldData, err := setupPre(dir, c.Pre, c.PreK, c.Size)
	if err != nil {
		res.infra = "pre-state: " + err.Error()
		return
	}
	args := []string{"-dir", dir, "-key", crashKey, "-ver", "1", "-len", itoa(c.Size),
		"-chunk", itoa(c.Chunk), "-killat", itoa(c.K), "-killpass", itoa(c.Pass)}
	if c.Underfoot {
		args = append(args, "-flipat", itoa(c.Size/2))
	}
	r, err := runProc("", []string{"GOMAXPROCS=1"}, bin("putter"), args...)
	if err != nil {
		res.infra = "putter: " + err.Error()
		return
	}
	completed := false
	switch {
	case r.Killed:
	case r.RC == 0 && strings.HasPrefix(r.Out, "DONE "):
		completed = true // the copy pass was not reached (content already present, or empty)
	case c.Underfoot && r.RC == 3 && strings.Contains(r.Out, "changed underfoot"):
		res.classes = append(res.classes, "crash_put_rejected_changed_input")
	default:
		res.msg = fmt.Sprintf("Put failed without being killed: rc=%d %s%s", r.RC, r.Out, r.Err)
		return
	}
	// the data file holds exactly the bytes handed out (design assumption, counted not asserted)
	if !completed && c.Pass == 2 {
		want := int64(c.K)
		if c.Pre == "partial" && int64(c.PreK) > want {
			want = int64(c.PreK)
		}
		if info, err := os.Stat(dataPath(dir, newData)); err == nil && info.Size() == want {
			res.classes = append(res.classes, "crash_datafile_len_eq_k")
		} else {
			res.classes = append(res.classes, "crash_datafile_len_other")
		}
	}
	msg, infra, dmg, hit := afterCrash(dir, c.Pre, newData, oldData, completed, c.K%5 == 0)
	res.msg, res.infra = msg, infra
	res.nontrivial = dmg.any()
	oc := offClass(c.K, c.Size)
	res.hash = ev.Hash("crash", c.Pre, itoa(c.Size), itoa(c.Pass), oc, itoa(c.Chunk), fmt.Sprint(c.Underfoot))
	if c.Underfoot {
		res.classes = append(res.classes, "crash_input_changed_underfoot")
	}
	res.classes = append(res.classes, "crash", "crash_pre_"+c.Pre, "crash_lookup_"+hit)
	if completed {
		res.classes = append(res.classes, "crash_writer_completed")
	}
	res.classes = append(res.classes, damageClasses(dmg)...)
	return
}

func damageClasses(d damage) []string {
	var out []string
	if d.ShortIndex > 0 {
		out = append(out, "state_short_index")
	}
	if d.ShortData > 0 {
		out = append(out, "state_short_data")
	}
	if d.Dangling > 0 {
		out = append(out, "state_index_without_complete_data")
	}
	if d.OrphanData > 0 {
		out = append(out, "state_data_without_index")
	}
	return out
}

func crashCases() []CrashCase {
	var cs []CrashCase
	pres := []string{"fresh", "oldver", "partial", "indexonly"}
	for _, size := range []int{0, 1, 2, 100} {
		ks := []int{}
		for k := 0; k < size; k++ {
			ks = append(ks, k)
		}
		if size == 0 {
			ks = []int{0}
		}
		for _, k := range ks {
			for ci, chunk := range []int{0, 1, 7} {
				for _, pre := range pres {
					if !ev.Thorough() && size == 100 {
						// quick: every k on a fresh directory with one of the three chunkings,
						// the other pre-states at boundary and middle k with every chunking
						boundary := k <= 1 || k == 50 || k >= 98
						if (pre == "fresh" && ci != k%3) || (pre != "fresh" && !boundary) {
							continue
						}
					}
					cs = append(cs, CrashCase{Pre: pre, PreK: size / 2, Size: size, K: k, Pass: 2, Chunk: chunk})
				}
			}
		}
	}
	big := []int{0, 1, 2, 4095, 4096, 4097, 32767, 32768, 32769, 35000, 65535, 65536, 65537, 69998, 69999}
	if ev.Thorough() {
		for k := 500; k < 70000; k += 997 {
			big = append(big, k)
		}
	}
	for bi, k := range big {
		for ci, chunk := range []int{0, 1000, 4096} {
			if !ev.Thorough() && ci != bi%3 {
				continue
			}
			for _, pre := range pres {
				cs = append(cs, CrashCase{Pre: pre, PreK: 33000, Size: 70000, K: k, Pass: 2, Chunk: chunk})
			}
		}
	}
	// the input changes between the hash pass and the copy pass
	for _, size := range []int{2, 100, 70000} {
		for _, pre := range append(pres, "same") {
			for _, k := range []int{0, size / 2, size/2 + 1, size - 1, size} {
				cs = append(cs, CrashCase{Pre: pre, PreK: size / 2, Size: size, K: k, Pass: 2, Underfoot: true})
			}
		}
	}
	// the hash pass writes nothing; "same": the copy pass is never reached
	for _, size := range []int{1, 100, 70000} {
		for _, pre := range []string{"fresh", "oldver", "same"} {
			cs = append(cs, CrashCase{Pre: pre, Size: size, K: 0, Pass: 1})
			cs = append(cs, CrashCase{Pre: pre, Size: size, K: size / 2, Pass: 1, Chunk: 7})
		}
		cs = append(cs, CrashCase{Pre: "same", Size: size, K: 0, Pass: 2})
	}
	return cs
}

var enumIncomplete bool

// reportEnum records a violation of an enumerated sub-check; after a few per
// test the rest is only counted.
var enumViolations = map[string]int{}

func reportEnum(t *testing.T, test, msg string, rep Replay) {
	enumViolations[test]++
	if enumViolations[test] > 5 {
		ev.Count(test+"_further_violations_not_listed", 1)
		return
	}
	ev.Violate(test, msg, "json", rep.bytes())
	t.Errorf("%s", msg)
}

func runEnumerated(t *testing.T, test string, n int, eval func(i int) (result, Replay)) {
	for i := 0; i < n; i++ {
		if i%ev.NShards() != ev.Shard() {
			continue
		}
		if ev.PastDeadline() {
			enumIncomplete = true
			ev.Count(test+"_skipped_after_deadline", 1)
			continue
		}
		res, rep := eval(i)
		if res.infra != "" {
			ev.Infra("%s case %d: %s", test, i, res.infra)
			continue
		}
		ev.Case(res.hash, res.nontrivial, res.classes...)
		if res.nontrivial && ev.WantSample() && i%7 == 0 {
			ev.Sample(rep)
		}
		if res.msg != "" {
			reportEnum(t, test, res.msg, rep)
		}
	}
}

func TestCrashPoints(t *testing.T) {
	defer timed("TestCrashPoints")()
	ev.Rule(rule)
	ev.Assume("a lookup through a new cache.Open in the test process is equivalent to a lookup from a new process (the cache keeps no state in memory; every 5th crash state is additionally looked up by a new putter -get process)")
	ev.Assume("SIGKILL of the writer models the crash: bytes already written stay in the page cache; power loss / torn sectors are out of scope")
	cs := crashCases()
	ev.Extra("crash_states_enumerated", len(cs))
	dir, err := newCacheDir()
	if err != nil {
		ev.Infra("%v", err)
		return
	}
	defer os.RemoveAll(dir)
	runEnumerated(t, "TestCrashPoints", len(cs), func(i int) (result, Replay) {
		c := cs[i]
		resetCacheDir(dir)
		return evalCrashIn(dir, c), Replay{Kind: "crash", Crash: &c}
	})
}

// ---------------------------------------------------------------------------
// sub-check 1b: strace kills the writer before its N-th call of a syscall

type StraceCase struct {
	Pre     string `json:"pre"`
	PreK    int    `json:"pre_k"`
	Size    int    `json:"size"`
	Chunk   int    `json:"chunk"`
	Syscall string `json:"syscall"`
	N       int    `json:"n"` // the writer is killed on entering its N-th call of Syscall
	// Underfoot: as in CrashCase
	Underfoot bool `json:"underfoot,omitempty"`
}

var (
	straceOnce sync.Once
	straceOK   bool
)

// straceUsable probes whether strace can inject SIGKILL here.
func straceUsable() bool {
	straceOnce.Do(func() {
		if _, err := exec.LookPath("strace"); err != nil {
			return
		}
		dir, err := newCacheDir()
		if err != nil {
			return
		}
		defer os.RemoveAll(dir)
		r, err := runStrace(dir, "write", 1, "-key", "probe", "-ver", "1", "-len", "10")
		if err == nil && r.Killed {
			if _, err := os.Stat(indexPath(dir, "probe")); os.IsNotExist(err) {
				straceOK = true
			}
		}
	})
	return straceOK
}

func runStrace(dir, sc string, n int, putterArgs ...string) (procResult, error) {
	args := []string{"-f", "-o", os.DevNull, "-e", "trace=" + sc, "-e", fmt.Sprintf("inject=%s:signal=KILL:when=%d", sc, n),
		bin("putter"), "-dir", dir}
	args = append(args, putterArgs...)
	return runProc("", []string{"GOMAXPROCS=1"}, "strace", args...)
}

// evalStrace returns the result and whether the writer ran to completion
// (then larger N are pointless).
func evalStrace(c StraceCase) (res result, completed bool) {
	dir, err := newCacheDir()
	if err != nil {
		res.infra = err.Error()
		return
	}
	defer os.RemoveAll(dir)
	return evalStraceIn(dir, c)
}

func evalStraceIn(dir string, c StraceCase) (res result, completed bool) {
	newData, oldData, err := setupPre(dir, c.Pre, c.PreK, c.Size)
	if err != nil {
		res.infra = "pre-state: " + err.Error()
		return
	}
	before := listingString(entryFiles(listCache(dir)))
	pargs := []string{"-key", crashKey, "-ver", "1", "-len", itoa(c.Size), "-chunk", itoa(c.Chunk)}
	if c.Underfoot {
		pargs = append(pargs, "-flipat", itoa(c.Size/2))
	}
	r, err := runStrace(dir, c.Syscall, c.N, pargs...)
	if err != nil {
		res.infra = "strace: " + err.Error()
		return
	}
	ended := false // the writer ran to its end (stored, or rejected the changed input)
	switch {
	case r.Killed:
	case r.RC == 0 && strings.HasPrefix(r.Out, "DONE "):
		completed, ended = true, true
	case c.Underfoot && r.RC == 3 && strings.Contains(r.Out, "changed underfoot"):
		ended = true
	default:
		res.infra = fmt.Sprintf("strace/putter ended unexpectedly: rc=%d %s%s", r.RC, r.Out, r.Err)
		return
	}
	after := listingString(entryFiles(listCache(dir)))
	msg, infra, dmg, hit := afterCrash(dir, c.Pre, newData, oldData, completed, false)
	if msg != "" {
		msg = fmt.Sprintf("writer killed on entering its %d. %s call (pre-state %s, size %d)\nentry files before: %s\nentry files after the kill: %s\n%s", c.N, c.Syscall, c.Pre, c.Size, before, after, msg)
	}
	res.msg, res.infra = msg, infra
	res.nontrivial = dmg.any()
	res.hash = ev.Hash("strace", c.Pre, itoa(c.Size), c.Syscall, itoa(c.N), itoa(c.Chunk), fmt.Sprint(c.Underfoot))
	if c.Underfoot {
		res.classes = append(res.classes, "strace_input_changed_underfoot")
	}
	defer func() { completed = ended }()
	res.classes = append(res.classes, "strace", "strace_"+c.Syscall, "strace_pre_"+c.Pre, "strace_lookup_"+hit)
	if completed {
		res.classes = append(res.classes, "strace_writer_completed")
	}
	if after != before {
		res.classes = append(res.classes, "strace_kill_changed_directory")
	}
	res.classes = append(res.classes, damageClasses(dmg)...)
	return
}

func TestStracePoints(t *testing.T) {
	defer timed("TestStracePoints")()
	ev.Rule(rule)
	if !straceUsable() {
		ev.Count("strace_unavailable_subcheck_skipped", 1)
		t.Log("strace fault injection is not usable here; sub-check skipped")
		return
	}
	ev.Assume("strace delivers the injected SIGKILL on entering the N-th call of the named syscall, so the call itself is not executed (probed at start: the index file of a 10-byte store does not exist when the first write is hit); counters are per syscall and per thread, the helper locks main to the initial thread")
	type triple struct {
		pre       string
		size      int
		chunk     int
		syscall   string
		underfoot bool
	}
	var ts []triple
	sizes := []int{0, 100, 70000}
	pres := []string{"fresh", "same", "oldver", "partial"}
	chunks := []int{0}
	syscalls := []string{"openat", "write", "ftruncate", "close", "utimensat", "unlinkat"}
	if ev.Thorough() {
		sizes = []int{0, 1, 2, 100, 32769, 70000}
		pres = append(pres, "indexonly")
		chunks = []int{0, 1000}
	}
	for _, pre := range pres {
		for _, size := range sizes {
			for _, chunk := range chunks {
				if chunk != 0 && size < 2000 {
					continue
				}
				for _, sc := range syscalls {
					if !ev.Thorough() {
						// quick: all syscalls for the 100-byte content; the large content only
						// adds write calls; the empty content has no data write
						if size == 70000 && (sc != "write" || (pre != "fresh" && pre != "partial")) {
							continue
						}
						if size == 0 && ((sc != "openat" && sc != "close" && sc != "write") || (pre != "fresh" && pre != "same")) {
							continue
						}
					}
					ts = append(ts, triple{pre, size, chunk, sc, false})
				}
			}
		}
	}
	for _, pre := range []string{"fresh", "oldver", "indexonly", "partial"} {
		for _, sc := range []string{"write", "ftruncate", "close"} {
			ts = append(ts, triple{pre, 100, 0, sc, true})
		}
	}
	if ev.Thorough() {
		// also the calls that do not change the directory (every stat of Open, every read of the existing data file)
		for _, pre := range []string{"fresh", "same", "partial"} {
			for _, sc := range []string{"newfstatat", "fcntl", "read", "mkdirat"} {
				ts = append(ts, triple{pre, 100, 0, sc, false})
			}
		}
	}
	maxN := ev.EnvInt("C05_STRACE_MAXN", 40, 400)
	total := 0
	dir, err := newCacheDir()
	if err != nil {
		ev.Infra("%v", err)
		return
	}
	defer os.RemoveAll(dir)
	runEnumerated(t, "TestStracePoints", len(ts), func(i int) (result, Replay) {
		tr := ts[i]
		var last result
		var lastRep Replay
		for n := 1; n <= maxN; n++ {
			c := StraceCase{Pre: tr.pre, PreK: tr.size / 2, Size: tr.size, Chunk: tr.chunk, Syscall: tr.syscall, N: n, Underfoot: tr.underfoot}
			resetCacheDir(dir)
			res, completed := evalStraceIn(dir, c)
			rep := Replay{Kind: "strace", Strace: &c}
			total++
			if n > 1 {
				// all but the last point of a triple are recorded here, the last by runEnumerated
				if last.infra != "" {
					ev.Infra("TestStracePoints: %s", last.infra)
				} else {
					ev.Case(last.hash, last.nontrivial, last.classes...)
					if last.msg != "" {
						reportEnum(t, "TestStracePoints", last.msg, lastRep)
					}
				}
			}
			last, lastRep = res, rep
			if completed || res.infra != "" {
				break
			}
			if n == maxN {
				ev.Count("strace_enumeration_cut_at_maxN", 1)
				enumIncomplete = true
			}
		}
		return last, lastRep
	})
	ev.Extra("strace_kill_points", total)
}

var _ = filepath.Join
