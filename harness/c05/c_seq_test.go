package c05

import (
	"fmt"
	"os"
	"path/filepath"
	"strings"
	"testing"
	"time"

	"honnef.co/go/tools/lintcmd/cache"
	"pgregory.net/rapid"
	"verif/harness/internal/ev"
)

// ---------------------------------------------------------------------------
// sub-check 2b: generated sequences of stores, crashes and file faults

type Step struct {
	Op    string `json:"op"` // put | crash | trunc | remove | agetrim
	Key   string `json:"key,omitempty"`
	Ver   int    `json:"ver,omitempty"`
	Size  int    `json:"size,omitempty"`
	K     int    `json:"k,omitempty"`     // crash: bytes before the kill (clamped to size-1)
	Chunk int    `json:"chunk,omitempty"` // crash
	File  int    `json:"file,omitempty"`  // trunc/remove/agetrim: index into the sorted list of entry files (mod length)
	Frac  int    `json:"frac,omitempty"`  // trunc: new length = size*frac/1000
}

type SeqCase struct {
	Steps []Step `json:"steps"`
}

var seqKeys = []string{"a", "b", "c"}

func genSeq(t *rapid.T) SeqCase {
	n := rapid.IntRange(1, 8).Draw(t, "nsteps")
	var sc SeqCase
	for i := 0; i < n; i++ {
		var s Step
		s.Op = rapid.SampledFrom([]string{"put", "put", "put", "crash", "crash", "crash", "trunc", "trunc", "trunc", "remove", "remove", "agetrim"}).Draw(t, "op")
		switch s.Op {
		case "put", "crash":
			s.Key = rapid.SampledFrom(seqKeys).Draw(t, "key")
			s.Ver = rapid.IntRange(0, 1).Draw(t, "ver")
			s.Size = rapid.SampledFrom([]int{0, 1, 2, 100, 5000, 70000}).Draw(t, "size")
			if s.Op == "crash" {
				s.K = rapid.IntRange(0, 70000).Draw(t, "k")
				s.Chunk = rapid.SampledFrom([]int{0, 1, 7, 4096}).Draw(t, "chunk")
				if s.Chunk == 1 && s.Size > 5000 {
					s.Chunk = 7
				}
			}
		default:
			s.File = rapid.IntRange(0, 11).Draw(t, "file")
			if s.Op == "trunc" {
				s.Frac = rapid.SampledFrom([]int{0, 1, 250, 500, 750, 990, 999}).Draw(t, "frac")
			}
		}
		sc.Steps = append(sc.Steps, s)
	}
	return sc
}

func evalSeq(sc SeqCase) (res result) {
	dir, err := newCacheDir()
	if err != nil {
		res.infra = err.Error()
		return
	}
	defer os.RemoveAll(dir)
	return evalSeqIn(dir, sc)
}

func evalSeqIn(dir string, sc SeqCase) (res result) {
	for _, s := range sc.Steps {
		if s.Op == "put" || s.Op == "crash" {
			trackDir(dir, []string{s.Key}, Content(s.Key, s.Ver, s.Size))
		}
	}
	acceptable := map[string][][]byte{}
	intact := map[string][]byte{} // key -> content of an entry no fault has touched since it was stored
	known := map[string]int{}
	fileOwner := func(path string) []string { // keys whose intact entry uses path
		var ks []string
		for k, d := range intact {
			if indexPath(dir, k) == path || dataPath(dir, d) == path {
				ks = append(ks, k)
			}
		}
		return ks
	}
	var hashParts []string
	var sb strings.Builder
	anyDamage := false
	for i, s := range sc.Steps {
		desc := fmt.Sprintf("step %d %+v", i, s)
		switch s.Op {
		case "put", "crash":
			data := Content(s.Key, s.Ver, s.Size)
			if !member(data, acceptable[s.Key]) {
				acceptable[s.Key] = append(acceptable[s.Key], data)
			}
			known[fmt.Sprintf("%x", OutID(data))] = len(data)
			if s.Op == "put" {
				if err := putFull(dir, s.Key, data); err != nil {
					fmt.Fprintf(&sb, "%s: Put failed: %v\n", desc, err)
				}
				intact[s.Key] = data
				hashParts = append(hashParts, "put", itoa(s.Size))
			} else {
				k := s.K
				if k >= s.Size {
					k = s.Size - 1
				}
				if k < 0 {
					k = 0
				}
				r, err := runProc("", []string{"GOMAXPROCS=1"}, bin("putter"), "-dir", dir, "-key", s.Key, "-ver", itoa(s.Ver), "-len", itoa(s.Size),
					"-chunk", itoa(s.Chunk), "-killat", itoa(k))
				if err != nil {
					res.infra = "putter: " + err.Error()
					return
				}
				switch {
				case r.Killed:
					// the index entry and data file of an intact entry are not
					// touched by a store that dies in its copy pass
				case r.RC == 0 && strings.HasPrefix(r.Out, "DONE "):
					intact[s.Key] = data
				default:
					fmt.Fprintf(&sb, "%s: Put failed without being killed: rc=%d %s%s\n", desc, r.RC, r.Out, r.Err)
				}
				hashParts = append(hashParts, "crash", itoa(s.Size), offClass(k, s.Size))
			}
		case "trunc", "remove", "agetrim":
			fs := entryFiles(listCache(dir))
			if len(fs) == 0 {
				hashParts = append(hashParts, s.Op, "nofile")
				break
			}
			f := fs[s.File%len(fs)]
			path := filepath.Join(dir, f.Rel)
			kind := f.Rel[len(f.Rel)-1:]
			for _, k := range fileOwner(path) {
				delete(intact, k)
			}
			switch s.Op {
			case "trunc":
				l := int(f.Size) * s.Frac / 1000
				if int64(l) == f.Size { // empty file
					break
				}
				if err := os.Truncate(path, int64(l)); err != nil {
					res.infra = err.Error()
					return
				}
				hashParts = append(hashParts, "trunc", kind, offClass(l, int(f.Size)))
			case "remove":
				os.Remove(path)
				hashParts = append(hashParts, "remove", kind)
			case "agetrim":
				old := time.Now().Add(-6 * 24 * time.Hour)
				os.Chtimes(path, old, old)
				os.Remove(filepath.Join(dir, "trim.txt"))
				c, err := cache.Open(dir)
				if err != nil {
					res.infra = err.Error()
					return
				}
				c.Trim()
				if _, err := os.Stat(path); err == nil {
					fmt.Fprintf(&sb, "%s: Trim (no trim.txt) kept %s although its mtime is 6 days old\n", desc, f.Rel)
				}
				if now := entryFiles(listCache(dir)); len(now) != len(fs)-1 {
					fmt.Fprintf(&sb, "%s: Trim removed more than the one aged file: before %s after %s\n", desc, listingString(fs), listingString(now))
				}
				hashParts = append(hashParts, "agetrim", kind)
			}
		}
		dmg := scanDamage(dir, known)
		if dmg.any() {
			anyDamage = true
			for _, c := range damageClasses(dmg) {
				ev.Count("seq_"+c, 1)
			}
		}
		state := listingString(entryFiles(listCache(dir)))
		c, err := cache.Open(dir)
		if err != nil {
			res.infra = err.Error()
			return
		}
		for _, k := range seqKeys {
			var must [][]byte
			if d, ok := intact[k]; ok {
				must = [][]byte{d}
			}
			if m := verdict(lookupWith(c, k), k, acceptable[k], must); m != "" {
				fmt.Fprintf(&sb, "after %s: %sentry files: %s\n", desc, m, state)
			}
		}
		if sb.Len() > 0 {
			break
		}
	}
	res.msg = sb.String()
	res.nontrivial = anyDamage
	res.hash = ev.Hash(append([]string{"seq"}, hashParts...)...)
	res.classes = []string{"seq"}
	return
}

func TestFaultSequences(t *testing.T) {
	defer timed("TestFaultSequences")()
	ev.Rule(rule)
	dir, err := newCacheDir()
	if err != nil {
		ev.Infra("%v", err)
		return
	}
	defer os.RemoveAll(dir)
	scaled(float64(ev.EnvInt("C05_SEQ_SCALE", 5, 6)), 4, func() {
		over := localBudget("SEQ", 10, 100)
		ev.Check(t, "TestFaultSequences", func(rt *rapid.T) {
			if over() {
				return
			}
			sc := genSeq(rt)
			rep := Replay{Kind: "seq", Seq: &sc}
			ev.Begin("TestFaultSequences", "json", rep.bytes())
			resetCacheDir(dir)
			res := evalSeqIn(dir, sc)
			if res.infra != "" {
				ev.Infra("TestFaultSequences: %s", res.infra)
				rt.Skip(res.infra)
			}
			ev.Case(res.hash, res.nontrivial, res.classes...)
			if res.msg != "" {
				ev.Failf(rt, "TestFaultSequences", "%s", res.msg)
			}
		})
	})
}
